#!/usr/bin/env python3
"""Framework behind /verif/check.

One check = (1) regenerate the translated Gallina from /repo, (2) compile the
property's Coq files and gate the Print Assumptions output, (3) build the
extracted model and the Go harness from /repo's working tree, run the
correspondence stream(s) and the direct property oracle, (4) verdict,
(5) evidence.  See DESIGN.md section 0.
"""
import fcntl
import glob
import hashlib
import json
import os
import re
import shutil
import subprocess
import sys
import time

VERIF = os.path.dirname(os.path.dirname(os.path.abspath(__file__)))
REPO = os.environ.get("VERIF_REPO", "/repo")
BUILD = os.path.join(VERIF, "build")
COQ = os.path.join(VERIF, "coq")
GO = os.path.join(VERIF, "go")
BIN = os.path.join(BUILD, "bin")

GOENV = dict(os.environ, GOFLAGS="-mod=mod", GOPROXY="off")
GOENV.pop("GOTOOLCHAIN", None)
GOENV.pop("GOSUMDB", None)

FORBIDDEN = re.compile(
    r"\b(Admitted|admit|Axiom|Axioms|Parameter|Parameters|Conjecture|Conjectures)\b|Admit Obligations|"
    r"Unset Guard Checking|bypass_check|type-in-type|impredicative-set|Unset Universe Checking|"
    r"Unset Positivity Checking|native_compute")

BASE_TRUSTED = [
    "Coq 8.16.1 kernel (coqc; vm_compute used for finite-table obligations and witnesses; native_compute not used)",
    "axioms: none declared by the development; Print Assumptions output gated per theorem (see coverage.assumptions)",
    "extraction: ExtrOcamlBasic only (bool, option, unit, list, prod, sumbool, sumor mapped to OCaml), N/Z/positive/nat kept as extracted inductives; no Extract Constant / Extract Inductive of our own",
    "OCaml 4.13.1 compiler and runtime; ocaml/common.ml + per-property glue (hex parsing, printing)",
    "translators go2gallina / table extractors (unverified Go programs; semantics in their headers; self-checked by the correspondence stream)",
    "Go harness and its generators (differential testing; validates the model, proves nothing)",
]


def log(*a):
    print(*a, file=sys.stderr, flush=True)


def run(cmd, cwd=None, env=None, timeout=None, stdin=None, stdout=subprocess.PIPE):
    p = subprocess.run(cmd, cwd=cwd, env=env, timeout=timeout, stdin=stdin,
                       stdout=stdout, stderr=subprocess.STDOUT, text=True, errors="replace")
    return p.returncode, (p.stdout or "")


class Lock:
    def __init__(self, name):
        os.makedirs(BUILD, exist_ok=True)
        self.path = os.path.join(BUILD, name + ".lock")

    def __enter__(self):
        self.f = open(self.path, "w")
        fcntl.flock(self.f, fcntl.LOCK_EX)
        return self

    def __exit__(self, *a):
        fcntl.flock(self.f, fcntl.LOCK_UN)
        self.f.close()


def load_prop(pid):
    with open(os.path.join(VERIF, "props", pid + ".json")) as f:
        return json.load(f)


def all_props():
    return sorted(os.path.basename(p)[:-5] for p in glob.glob(os.path.join(VERIF, "props", "C*.json")))


# ---------------------------------------------------------------- tools

def build_tool(name):
    """Build a Go tool that does not import pdfcpu (translators)."""
    os.makedirs(BIN, exist_ok=True)
    out = os.path.join(BIN, name)
    with Lock("gotool-" + name):
        rc, o = run(["go", "build", "-o", out, "./cmd/" + name], cwd=GO, env=GOENV, timeout=600)
    if rc != 0:
        return None, o
    return out, o


def coq_project(tag="all", dirs=None):
    """(Re)generate _CoqProject.<tag> / Makefile.<tag> listing only the given
    directories (default: all), so that a broken file of one property cannot
    disturb the dependency scan of another."""
    files = []
    for d in sorted(os.listdir(COQ)):
        p = os.path.join(COQ, d)
        if not os.path.isdir(p) or (dirs is not None and d not in dirs):
            continue
        for f in sorted(os.listdir(p)):
            if f.endswith(".v") and not f.startswith("Extract") and not f.startswith("Cases"):
                files.append(d + "/" + f)
    text = "-Q . PV\n-arg -w -arg -notation-overridden,-deprecated-hint-without-locality,-deprecated-instance-without-locality\n" + "\n".join(files) + "\n"
    cp = os.path.join(COQ, "_CoqProject." + tag)
    mk = "Makefile." + tag
    old = open(cp).read() if os.path.exists(cp) else None
    if old != text or not os.path.exists(os.path.join(COQ, mk)):
        with open(cp, "w") as f:
            f.write(text)
        rc, o = run(["coq_makefile", "-f", "_CoqProject." + tag, "-o", mk], cwd=COQ)
        if rc != 0:
            raise RuntimeError("coq_makefile failed: " + o)
    return mk


def coq_make(targets, timeout=1500, tag="all", dirs=None):
    with Lock("coq"):
        mk = coq_project(tag, dirs)
        rc, o = run(["make", "-f", mk, "-j16"] + targets, cwd=COQ, timeout=timeout)
    return rc, o


def prop_dirs(pid, prop):
    return ["Lib", prop.get("coq_dir", pid)] + list(prop.get("coq_deps", []))


ASSUME_RE = re.compile(r"Print Assumptions\s+([A-Za-z0-9_'.]+)\s*\.")


def coq_property(pid, prop):
    """Compile the property file's dependencies, then the property file itself
    (always, to capture Print Assumptions). Returns dict."""
    res = {"obligations": 0, "discharged": 0, "broken": [], "assumptions": {}, "log": ""}
    cdir = prop.get("coq_dir", pid)
    pfile = os.path.join(COQ, cdir, "Property.v")
    src = open(pfile).read()
    # statements present
    thms = re.findall(r"^(?:Theorem|Corollary)\s+([A-Za-z0-9_']+)", src, re.M)
    printed = ASSUME_RE.findall(src)
    res["theorems"] = thms
    res["obligations"] = len(thms)
    for t in prop.get("theorems", []):
        if t not in thms:
            res["broken"].append("theorem %s missing from %s/Property.v" % (t, cdir))
    for t in thms:
        if t not in printed:
            res["broken"].append("no Print Assumptions for %s" % t)
    # grep gate
    gate_files = glob.glob(os.path.join(COQ, "Lib", "*.v")) + glob.glob(os.path.join(COQ, cdir, "*.v"))
    for extra in prop.get("coq_deps", []):
        gate_files += glob.glob(os.path.join(COQ, extra, "*.v"))
    for gf in gate_files:
        txt = strip_comments(open(gf).read())
        m = FORBIDDEN.search(txt)
        if m:
            res["broken"].append("forbidden construct %r in %s" % (m.group(0), os.path.relpath(gf, VERIF)))
    # build deps + the property .vo
    rc, o = coq_make([cdir + "/Property.vo"], tag=pid, dirs=prop_dirs(pid, prop))
    res["log"] = o[-6000:]
    if rc != 0:
        m = re.search(r'File "\./([^"]+)", line (\d+)', o)
        where = ("%s line %s" % (m.group(1), m.group(2))) if m else "?"
        res["broken"].append("Coq build of %s/Property.vo failed at %s" % (cdir, where))
        res["failed_file"] = m.group(1) if m else None
        return res
    # capture assumptions
    os.makedirs(os.path.join(BUILD, pid, "pcheck"), exist_ok=True)
    with Lock("coq"):
        rc, o = run(["coqc", "-Q", ".", "PV", "-w", "-notation-overridden", "-o", os.path.join(BUILD, pid, "pcheck", "Property.vo"),
                     cdir + "/Property.v"], cwd=COQ, timeout=900)
    if rc != 0:
        res["broken"].append("coqc Property.v failed")
        res["log"] += o[-3000:]
        return res
    blocks = re.split(r"(?m)^(?=Closed under the global context|Axioms:)", o)
    blocks = [b for b in blocks if b.startswith("Closed under") or b.startswith("Axioms:")]
    if len(blocks) != len(printed):
        res["broken"].append("Print Assumptions output count %d != %d" % (len(blocks), len(printed)))
        return res
    allowed = set(prop.get("allowed_axioms", []))
    for name, b in zip(printed, blocks):
        if b.startswith("Closed under"):
            res["assumptions"][name] = []
            ok = True
        else:
            axs = re.findall(r"(?m)^([A-Za-z0-9_'.]+)\s*:", b)
            res["assumptions"][name] = axs
            ok = all(a in allowed for a in axs)
            if not ok:
                res["broken"].append("theorem %s depends on non-allowed assumptions %s" % (name, [a for a in axs if a not in allowed]))
        if ok and name in thms:
            res["discharged"] += 1
    return res


def strip_comments(s):
    out = []
    depth = 0
    i = 0
    while i < len(s):
        if s.startswith("(*", i):
            depth += 1
            i += 2
        elif s.startswith("*)", i) and depth > 0:
            depth -= 1
            i += 2
        else:
            if depth == 0:
                out.append(s[i])
            i += 1
    return "".join(out)


def sha(paths):
    h = hashlib.sha256()
    for p in paths:
        h.update(p.encode())
        try:
            h.update(open(p, "rb").read())
        except OSError:
            h.update(b"<missing>")
    return h.hexdigest()


def build_modelrun(pid, prop):
    """Extract the model and build build/<pid>/modelrun. Returns (path|None, log)."""
    cdir = prop.get("coq_dir", pid)
    bdir = os.path.join(BUILD, pid)
    os.makedirs(bdir, exist_ok=True)
    ext = os.path.join(COQ, cdir, "Extract.v")
    glue = os.path.join(VERIF, "ocaml", prop.get("glue", pid + "_glue.ml"))
    common = os.path.join(VERIF, "ocaml", "common.ml")
    # dependencies of Extract.v: build through make (Lib/ExtBase + whatever it imports)
    src = open(ext).read()
    mods = re.findall(r"\b(Lib\.[A-Za-z0-9_]+|C\d+\.[A-Za-z0-9_]+)", strip_comments(src))
    targets = sorted(set(m.replace(".", "/") + ".vo" for m in mods))
    rc, o = coq_make(targets, tag=pid, dirs=prop_dirs(pid, prop))
    if rc != 0:
        return None, "model dependencies do not compile:\n" + o[-3000:]
    vos = [os.path.join(COQ, t) for t in targets]
    stamp = sha([ext, glue, common] + vos)
    sfile = os.path.join(bdir, "modelrun.stamp")
    exe = os.path.join(bdir, "modelrun")
    if os.path.exists(exe) and os.path.exists(sfile) and open(sfile).read() == stamp:
        return exe, "cached"
    with Lock("ocaml-" + pid):
        rc, o = run(["coqc", "-Q", COQ, "PV", "-w", "-notation-overridden,-extraction-opaque-accessed,-extraction-reserved-identifier", "-o", os.path.join(bdir, "Extract.vo"), ext], cwd=bdir, timeout=900)
        if rc != 0:
            return None, "extraction failed:\n" + o[-3000:]
        shutil.copy(common, os.path.join(bdir, "common.ml"))
        shutil.copy(glue, os.path.join(bdir, "glue.ml"))
        rc, o2 = run(["ocamlfind", "ocamlopt", "-O2", "-w", "-a", "model.mli", "model.ml", "common.ml", "glue.ml", "-o", "modelrun"], cwd=bdir, timeout=900)
        if rc != 0:
            rc, o2 = run(["ocamlfind", "ocamlopt", "-w", "-a", "model.mli", "model.ml", "common.ml", "glue.ml", "-o", "modelrun"], cwd=bdir, timeout=900)
        if rc != 0:
            return None, "ocaml build failed:\n" + o2[-3000:]
        with open(sfile, "w") as f:
            f.write(stamp)
    return exe, o


def modfile_args():
    """go.mod of /verif/go points at /repo; for another tree (VERIF_REPO) use an alternate modfile."""
    if os.path.realpath(REPO) == "/repo":
        shutil.copy(os.path.join(REPO, "go.sum"), os.path.join(GO, "go.sum"))
        return []
    d = os.path.join(BUILD, "gomod-" + hashlib.sha256(REPO.encode()).hexdigest()[:10])
    os.makedirs(d, exist_ok=True)
    txt = open(os.path.join(GO, "go.mod")).read().replace("=> /repo", "=> " + os.path.realpath(REPO))
    with open(os.path.join(d, "go.mod"), "w") as f:
        f.write(txt)
    shutil.copy(os.path.join(REPO, "go.sum"), os.path.join(d, "go.sum"))
    return ["-modfile=" + os.path.join(d, "go.mod")]


def build_harness(pid, prop):
    name = prop.get("harness", pid.lower())
    out = os.path.join(BIN, "h" + pid)
    os.makedirs(BIN, exist_ok=True)
    with Lock("go-" + pid):
        rc, o = run(["go", "build"] + modfile_args() + ["-tags", "verif", "-o", out, "./cmd/" + name], cwd=GO, env=GOENV, timeout=1500)
    if rc != 0:
        return None, o
    return out, o


def translators(pid, prop):
    """Run the translators of this property. Returns list of failure strings."""
    broken = []
    for t in prop.get("translate", []):
        tool, o = build_tool(t["tool"])
        if tool is None:
            broken.append("translator %s does not build: %s" % (t["tool"], o[-500:]))
            continue
        args = [a.replace("{repo}", REPO).replace("{verif}", VERIF) for a in t["args"]]
        outp = os.path.join(VERIF, t["out"])
        os.makedirs(os.path.join(BUILD, pid), exist_ok=True)
        tmp = os.path.join(BUILD, pid, "translated-" + os.path.basename(outp))
        if os.path.exists(tmp):
            os.remove(tmp)
        rc, o = run([tool] + args + ["-out", tmp], cwd=VERIF, timeout=600)
        if rc != 0 or not os.path.exists(tmp):
            broken.append("translator %s failed on the current source (%s): %s" % (t["tool"], " ".join(t["args"]), o.strip()[-600:]))
            continue
        # normalise the tree path so that a scratch tree (VERIF_REPO) yields the same text as /repo
        txt = open(tmp).read().replace(os.path.realpath(REPO) + "/", "/repo/").replace(REPO.rstrip("/") + "/", "/repo/")
        old_txt = open(outp).read() if os.path.exists(outp) else None
        if txt != old_txt:
            with open(outp, "w") as f:
                f.write(txt)
    return broken


def compare(bdir, modelrun, limit=20):
    """Run modelrun over cases.tsv, diff with impl.tsv."""
    cases = os.path.join(bdir, "cases.tsv")
    impl = os.path.join(bdir, "impl.tsv")
    model = os.path.join(bdir, "model.tsv")
    with open(cases) as fi, open(model, "w") as fo:
        p = subprocess.run([modelrun], stdin=fi, stdout=fo, stderr=subprocess.PIPE, timeout=3000,
                           preexec_fn=lambda: __import__("resource").setrlimit(__import__("resource").RLIMIT_STACK, (-1, -1)) if False else None)
    mism = []
    n = 0
    with open(cases, errors="replace") as fc, open(impl, errors="replace") as fi, open(model, errors="replace") as fm:
        for lc, li in zip(fc, fi):
            lm = fm.readline()
            n += 1
            if lm != li:
                if len(mism) < limit:
                    c = lc.rstrip("\n").split("\t")
                    mism.append({"id": c[0], "fn": c[1], "args": c[2:],
                                 "impl": li.rstrip("\n").split("\t", 1)[-1],
                                 "model": lm.rstrip("\n").split("\t", 1)[-1] if lm else "<no reply>"})
                else:
                    mism.append(None)
    nm = len(mism)
    return n, nm, [m for m in mism if m]


def known_findings():
    p = os.path.join(VERIF, "known_findings.json")
    if not os.path.exists(p):
        return []
    return json.load(open(p)).get("findings", [])


def write_json(path, obj):
    os.makedirs(os.path.dirname(path), exist_ok=True)
    tmp = path + ".tmp%d" % os.getpid()
    with open(tmp, "w") as f:
        json.dump(obj, f, indent=1, sort_keys=False)
        f.write("\n")
    os.replace(tmp, path)


# ---------------------------------------------------------------- main check

def check(pid, tier, seed, replay=None):
    # one check per property at a time: two runs share build/<pid> (model binary, harness run directory)
    with Lock("check-" + pid):
        return _check(pid, tier, seed, replay)


def _check(pid, tier, seed, replay=None):
    t0 = time.time()
    prop = load_prop(pid)
    bdir = os.path.join(BUILD, pid)
    rdir = os.path.join(bdir, "run")
    shutil.rmtree(rdir, ignore_errors=True)
    os.makedirs(rdir, exist_ok=True)
    proof_broken = []
    corr_broken = []
    notes = []

    # 1. translators
    proof_broken += translators(pid, prop)

    # 2. Coq
    cq = coq_property(pid, prop)
    proof_broken += cq["broken"]

    # 2b. thorough tier: independent re-check of the compiled property with coqchk
    coqchk = None
    if tier == "thorough" and not cq["broken"]:
        cdir = prop.get("coq_dir", pid)
        try:
            with Lock("coq"):
                rc, o = run(["coqchk", "-silent", "-o", "-Q", ".", "PV", "PV.%s.Property" % cdir], cwd=COQ, timeout=3000)
        except subprocess.TimeoutExpired:
            rc, o = 124, "coqchk timed out"
        m = re.search(r"\* Axioms:(.*?)\n\s*\n\* Constants/Inductives relying on type-in-type:(.*?)\n", o, re.S)
        axs = re.sub(r"\s+", " ", m.group(1)).strip() if m else "?"
        coqchk = {"exit": rc, "axioms": axs, "tail": o[-600:]}
        allowed_chk = prop.get("allowed_coqchk_axioms", [])
        if rc != 0:
            proof_broken.append("coqchk failed on PV.%s.Property: %s" % (cdir, o[-400:]))
        elif axs != "<none>" and not all(a.strip() in allowed_chk for a in axs.split() if a.strip()):
            proof_broken.append("coqchk reports axioms: " + axs)

    # 3. model + harness
    stats = {}
    mism = []
    ncases = 0
    oracle_fail = []
    streams = prop.get("harness", pid.lower()) is not None and not prop.get("no_harness")
    if streams:
        exe, o = build_modelrun(pid, prop)
        if exe is None:
            corr_broken.append("model does not build/extract: " + o[-800:])
        hb, o2 = build_harness(pid, prop)
        if hb is None:
            corr_broken.append("harness does not build against the current source: " + o2[-1200:])
        if hb is not None:
            cmd = [hb, "--seed", str(seed), "--tier", tier, "--out", rdir] + prop.get("harness_args", [])
            env = dict(GOENV, VERIF_REPO=REPO, VERIF_DIR=VERIF, VERIF_BUILD=bdir)
            try:
                rc, o3 = run(cmd, cwd=VERIF, env=env, timeout=prop.get("harness_timeout", 3000))
            except subprocess.TimeoutExpired:
                rc, o3 = 124, "harness timed out"
            open(os.path.join(rdir, "harness.log"), "w").write(o3)
            if rc != 0:
                corr_broken.append("harness exited %d: %s" % (rc, o3[-1500:]))
            sp = os.path.join(rdir, "stats.json")
            if os.path.exists(sp):
                stats = json.load(open(sp))
            op = os.path.join(rdir, "oracle.jsonl")
            if os.path.exists(op):
                for line in open(op):
                    line = line.strip()
                    if line:
                        oracle_fail.append(json.loads(line))
            if exe is not None and rc == 0 and os.path.exists(os.path.join(rdir, "cases.tsv")):
                try:
                    ncases, nm, mism = compare(rdir, exe)
                except subprocess.TimeoutExpired:
                    ncases, nm, mism = 0, 1, []
                    corr_broken.append("modelrun timed out")
                if nm:
                    corr_broken.append("model and implementation disagree on %d of %d cases" % (nm, ncases))
            if rc == 0 and ncases == 0 and int(stats.get("oracle_checks", 0) or 0) == 0:
                # a harness that explored nothing decides nothing: never report OK for it
                corr_broken.append("harness run produced no correspondence case and no oracle check")

    # 4. verdict
    kf = [k for k in known_findings() if k.get("property") == pid]
    open_classes = {k["class"]: k for k in kf if k.get("status") == "open"}
    seen_known = {}
    unknown = []
    for f in oracle_fail:
        c = f.get("class")
        if c in open_classes:
            seen_known.setdefault(c, f)
        else:
            unknown.append(f)
    violations = 0
    lines = []
    os.makedirs(os.path.join(VERIF, "replays"), exist_ok=True)
    for c, f in sorted(seen_known.items()):
        lines.append("KNOWN-FINDING: property=%s %s [class %s]" % (pid, open_classes[c]["text"], c))
    if unknown:
        # group by class, report each class once
        byc = {}
        for f in unknown:
            byc.setdefault(f.get("class"), []).append(f)
        for i, (c, fs) in enumerate(sorted(byc.items(), key=lambda kv: str(kv[0]))):
            rp = os.path.join(VERIF, "replays", "%s-%d-%d.json" % (pid, seed, i))
            write_json(rp, {"property": pid, "kind": "failing-input", "class": c, "seed": seed, "tier": tier,
                            "count": len(fs), "input": fs[0].get("input"), "detail": fs[0].get("detail"),
                            "more": [x.get("input") for x in fs[1:5]],
                            "proof_obligations_broken": proof_broken, "correspondence_broken": corr_broken,
                            "how_to_replay": "./check %s --replay %s" % (pid, rp)})
            lines.append("VIOLATION property=%s replay=%s" % (pid, rp))
            violations += 1
    elif proof_broken or corr_broken:
        rp = os.path.join(VERIF, "replays", "%s-%d-unproved.json" % (pid, seed))
        write_json(rp, {"property": pid, "kind": "no-failing-input-found", "seed": seed, "tier": tier,
                        "theorems_or_obligations_no_longer_checked": proof_broken,
                        "correspondence_no_longer_checked": corr_broken,
                        "first_disagreements": mism[:10], "coq_log_tail": cq.get("log", "")[-2500:],
                        "searched": {"cases": ncases, "oracle_checks": stats.get("oracle_checks", 0)},
                        "how_to_replay": "./check %s --replay %s" % (pid, rp)})
        lines.append("VIOLATION property=%s replay=%s no-failing-input-found" % (pid, rp))
        violations += 1

    # 5. evidence
    wall = time.time() - t0
    cov = {
        "obligations": max(cq["obligations"], 1),
        "discharged": cq["discharged"] if not proof_broken else min(cq["discharged"], max(cq["obligations"] - 1, 0)),
        "checker_cmd": "make -C coq %s/Property.vo && coqc -Q coq PV coq/%s/Property.v (Print Assumptions gated); grep gate; ./check %s" % (prop.get("coq_dir", pid), prop.get("coq_dir", pid), pid),
        "trusted_base": BASE_TRUSTED + prop.get("trusted_base", []),
        "theorems": cq.get("theorems", []),
        "assumptions": cq.get("assumptions", {}),
        "model_tie": prop.get("tie", ""),
        "evaluations": int(stats.get("cases", 0)) + int(stats.get("oracle_checks", 0)),
        "distinct_nontrivial": int(stats.get("distinct", 0)),
        "rule": prop.get("rule", "cases are (function, arguments) requests generated by the harness; distinct = distinct request lines; all generated requests are non-trivial inputs of the modelled functions"),
        "samples": (stats.get("samples") or [])[:12] or [{"note": "no harness samples"}],
        "correspondence": {"cases": ncases, "disagreements": len(mism), "first": mism[:3]},
        "oracle": {"checks": stats.get("oracle_checks", 0), "failures": len(oracle_fail),
                   "known": sorted(seen_known.keys()), "unlisted": len(unknown)},
        "distribution": stats.get("distribution", {}),
        "extra": stats.get("extra", {}),
        "coqchk": coqchk,
        "proof_obligations_broken": proof_broken,
        "correspondence_broken": [c[:400] for c in corr_broken],
    }
    ev = {
        "property_id": pid, "tier": tier, "seed": seed, "level": (prop.get("level", "proof") if prop.get("level", "proof") in ("exploration", "fault_enumeration", "model_checking", "proof", "translation_validation", "other") else "proof"),
        "coverage": cov,
        "assumptions": prop.get("assumes", []),
        "wall_s": round(wall, 2),
        "violations": violations,
    }
    if os.path.realpath(REPO) == "/repo":
        write_json(os.path.join(VERIF, "evidence", pid + ".json"), ev)
    else:
        # a run against a scratch tree (VERIF_REPO) must not replace the evidence of /repo
        write_json(os.path.join(BUILD, pid, "evidence-scratch-tree.json"), ev)
    for l in lines:
        print(l)
    summary = "%s tier=%s seed=%d theorems=%d/%d cases=%d disagreements=%d oracle=%s/%s wall=%.1fs" % (
        pid, tier, seed, cov["discharged"], cq["obligations"], ncases, len(mism),
        len(oracle_fail), stats.get("oracle_checks", 0), wall)
    print(("FAIL " if violations else "OK ") + summary)
    if violations and (proof_broken or corr_broken):
        for b in proof_broken + corr_broken:
            log("  broken: " + b[:1500])
    return 1 if violations else 0


def claimed_props():
    rp = os.path.join(VERIF, "props", "ready.json")
    if os.path.exists(rp):
        ready = set(json.load(open(rp)))
        return [p for p in all_props() if p in ready]
    return all_props()


def setup():
    """Build everything the claimed checks need from files on disk (warms the Go
    build cache, compiles the Coq files of every claimed property)."""
    ok = True
    for tool in sorted(os.listdir(os.path.join(GO, "cmd"))):
        if tool.startswith("go2") or tool.startswith("gen") or tool.startswith("tab"):
            t, o = build_tool(tool)
            if t is None:
                log("tool %s failed: %s" % (tool, o[-800:]))
    for pid in claimed_props():
        prop = load_prop(pid)
        for b in translators(pid, prop):
            log("translator: " + b)
            ok = False
        cdir = prop.get("coq_dir", pid)
        rc, o = coq_make([cdir + "/Property.vo"], tag=pid, dirs=prop_dirs(pid, prop))
        if rc != 0:
            log("coq %s: %s" % (pid, o[-1500:]))
            ok = False
        if prop.get("no_harness"):
            continue
        exe, o = build_modelrun(pid, prop)
        if exe is None:
            log("modelrun %s: %s" % (pid, o[-800:]))
            ok = False
        hb, o = build_harness(pid, prop)
        if hb is None:
            log("harness %s: %s" % (pid, o[-800:]))
            ok = False
        log("setup %s done" % pid)
    return 0 if ok else 1


def main(argv):
    if len(argv) >= 2 and argv[1] == "--setup":
        return setup()
    if len(argv) < 2:
        print("usage: check <Cxx> [--tier quick|thorough] [--replay file] | --setup")
        return 2
    pid = argv[1]
    tier = os.environ.get("VERIF_TIER", "quick")
    replay = None
    i = 2
    while i < len(argv):
        if argv[i] == "--tier":
            tier = argv[i + 1]
            i += 2
        elif argv[i] == "--replay":
            replay = argv[i + 1]
            i += 2
        else:
            i += 1
    seed = int(os.environ.get("VERIF_SEED", "1") or "1")
    if replay:
        rp = json.load(open(replay))
        seed = rp.get("seed", seed)
        tier = rp.get("tier", tier)
        log("replaying %s with seed=%d tier=%s" % (replay, seed, tier))
    if tier not in ("quick", "thorough"):
        tier = "quick"
    return check(pid, tier, seed, replay)


if __name__ == "__main__":
    sys.exit(main(sys.argv))
