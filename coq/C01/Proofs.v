(* C01 — proofs about the api.stagedOutput protocol (pkg/api/file.go) and the *File skeleton. *)
From stdpp Require Import gmap.
From Coq Require Import NArith Lia.
From PV Require Import C01.FS C01.FSFacts C01.Model.

(* for which (key, body ending) pairs failure safety holds: a completion flag always; the error variable
   or no defer unless the body panics; never when the decision reads a shadowed (always nil) variable *)
Definition safe_for (k : key) (fin : ctl) : Prop := k = KFlag \/ (k <> KAlways /\ fin <> CPanic).
Lemma safe_for_not_always k fin : safe_for k fin -> k <> KAlways.
Proof. intros [->|[Hna _]]; [discriminate|exact Hna]. Qed.

Section ApiProofs.
Variable pl : plan.
Variable fresh : gmap positive file -> positive.
Hypothesis fresh_spec : forall m, m !! fresh m = None.
Hypothesis Hamo : amo pl.

Lemma close_cases p w :
  (exists w', close pl p w = Fail EIO w' /\ wfs w' = wfs w /\ wcnt w' = S (wcnt w) /\ pl (wcnt w) = true) \/
  (exists w', close pl p w = Done tt w' /\ wfs w' = wfs w /\ wcnt w' = S (wcnt w)).
Proof.
  unfold close, call. destruct (pl (wcnt w)) eqn:Hp; [left|right]; eexists; repeat split.
Qed.

Lemma stat_opt_cases target w :
  (exists e w', stat_opt pl target w = Fail e w' /\ wfs w' = wfs w /\ wcnt w' = S (wcnt w)) \/
  (exists p fi w', target = Some p /\ stat_opt pl target w = Done fi w' /\ wfs w' = wfs w /\ wcnt w' = S (wcnt w)).
Proof.
  destruct target as [p|]; unfold stat_opt.
  - destruct (stat_cases pl p w) as [(e & w1 & Heq & Hf & Hc)|(fi & w1 & Heq & Hf & Hc & _)].
    + left. exists e, w1. auto.
    + right. exists p, fi, w1. auto.
  - left. unfold call. destruct (pl (wcnt w)); eexists _, _; repeat split.
Qed.

(* what openStagedOutput leaves: on error the filesystem is untouched; on success exactly one new
   file (the staging file or the reserved new output) was added *)
Definition open_post (m0 : gmap positive file) (k : nat) (ins : list positive) (inF outF : option positive)
           (o : outcome staged) : Prop :=
  match o with
  | Fail _ w' => wfs w' = m0 /\ k <= wcnt w'
  | Done s w' => staged_inv m0 (s_tmp s) (wfs w') /\ s_out s = s_tmp s /\ s_ins s = ins /\ k <= wcnt w' /\
                 (s_dest s = None -> outF = Some (s_tmp s) /\ opt_eqb inF outF = false)
  end.

Lemma open_tmp_spec ins inF outF target w :
  open_post (wfs w) (wcnt w) ins inF outF (open_tmp pl fresh ins target w).
Proof.
  unfold open_tmp.
  destruct (stat_opt_cases target w) as [(e & w1 & -> & Hf1 & Hc1)|(p & fi & w1 & -> & -> & Hf1 & Hc1)];
    cbv beta iota zeta.
  { split; [exact Hf1|lia]. }
  destruct (create_temp_cases pl fresh fresh_spec mode_tmp w1) as [(e & w2 & -> & Hf2 & Hc2)|(w2 & -> & Hf2 & Hc2 & Hinv2)];
    cbv beta iota zeta.
  { split; [congruence|lia]. }
  rewrite Hf1 in Hinv2 |- *.
  destruct (chmod_cases pl (wfs w) (fresh (wfs w)) (fmode fi) w2 Hinv2) as [(w3 & -> & Hf3 & Hc3 & Hp3)|(w3 & -> & Hinv3 & Hc3)];
    cbv beta iota zeta.
  - pose proof (amo_quiet _ _ Hamo Hp3) as Hq.
    destruct (close_fs pl (fresh (wfs w)) w3) as [Hf4 Hc4].
    split.
    + apply remove_quiet_restores.
      * rewrite Hc4, Hc3. eapply quiet_mono; [exact Hq|lia].
      * rewrite Hf4, Hf3. exact Hinv2.
    + rewrite remove_cnt, Hc4. lia.
  - cbn [s_tmp s_out s_ins s_dest]. split; [exact Hinv3|]. split; [reflexivity|]. split; [reflexivity|].
    split; [lia|discriminate].
Qed.

Lemma open_staged_spec ins inF outF w :
  open_post (wfs w) (wcnt w) ins inF outF (open_staged pl fresh ins inF outF w).
Proof.
  unfold open_staged. destruct outF as [o|]; [destruct (negb (opt_eqb inF (Some o))) eqn:Hne|].
  - destruct (open_excl_cases pl o w) as [(e & w1 & -> & Hf1 & Hc1)|(w1 & -> & Hc1 & Hinv1)];
      cbv beta iota zeta.
    + destruct e.
      * split; [exact Hf1|lia].
      * pose proof (open_tmp_spec ins inF (Some o) (Some o) w1) as Hspec.
        destruct (open_tmp pl fresh ins (Some o) w1) as [s w2|e w2]; cbn [open_post] in *.
        -- rewrite Hf1, Hc1 in Hspec. destruct Hspec as (H1 & H2 & H3 & H4 & H5).
           split; [exact H1|]. split; [exact H2|]. split; [exact H3|]. split; [lia|exact H5].
        -- rewrite Hf1, Hc1 in Hspec. destruct Hspec as (H1 & H2). split; [exact H1|lia].
      * split; [exact Hf1|lia].
    + cbn [open_post s_tmp s_out s_ins s_dest]. split; [exact Hinv1|]. split; [reflexivity|]. split; [reflexivity|].
      split; [lia|]. intros _. split; [reflexivity|]. apply negb_true_iff in Hne. exact Hne.
  - apply open_tmp_spec.
  - apply open_tmp_spec.
Qed.

(* cleanup_restores: with no fault left, cleanup brings back the original filesystem *)
Lemma cleanup_restores m0 s w :
  quiet pl (wcnt w) -> staged_inv m0 (s_tmp s) (wfs w) -> wfs (cleanup pl s w) = m0.
Proof.
  intros Hq Hinv. unfold cleanup, remove_file.
  destruct (close_fs pl (s_out s) w) as [Hf1 Hc1].
  pose proof (close_all_spec pl (s_ins s) (world_of (close pl (s_out s) w))) as (Hf2 & Hc2 & _ & _).
  destruct (close_all pl (s_ins s) (world_of (close pl (s_out s) w))) as [b w2]. cbn [fst snd] in *.
  apply remove_quiet_restores.
  - eapply quiet_mono; [exact Hq|lia].
  - rewrite Hf2, Hf1. exact Hinv.
Qed.

(* commit: when it does not succeed the original filesystem is back — except when the output is a
   freshly reserved new file (destination "") and closing an input failed: commit returns the
   error and keeps the output (pkg/api/file.go, commit, `return err`) *)
Lemma commit_spec m0 s w r w' :
  staged_inv m0 (s_tmp s) (wfs w) ->
  commit pl s w = (r, w') -> r <> COk ->
  wfs w' = m0 \/ (s_dest s = None /\ s_ins s <> [] /\ wfs w' = wfs w /\ exists j, pl j = true).
Proof.
  intros Hinv. unfold commit, remove_file.
  destruct (close_cases (s_out s) w) as [(w1 & -> & Hf1 & Hc1 & Hp1)|(w1 & -> & Hf1 & Hc1)]; cbv beta iota zeta.
  - pose proof (amo_quiet _ _ Hamo Hp1) as Hq.
    pose proof (close_all_spec pl (s_ins s) w1) as (Hf2 & Hc2 & _ & _).
    destruct (close_all pl (s_ins s) w1) as [b w2]. cbn [fst snd] in *.
    intros [= <- <-] _. left. apply remove_quiet_restores.
    + eapply quiet_mono; [exact Hq|lia].
    + rewrite Hf2, Hf1. exact Hinv.
  - pose proof (close_all_spec pl (s_ins s) w1) as (Hf2 & Hc2 & Hbad & _).
    destruct (close_all pl (s_ins s) w1) as [bad w2]. cbn [fst snd] in *.
    destruct bad.
    + destruct (Hbad eq_refl) as (j & Hj & Hpj).
      assert (Hq : quiet pl (wcnt w2)) by (eapply amo_quiet_lt; [exact Hamo|exact Hpj|lia]).
      destruct (s_dest s) as [d|].
      * intros [= <- <-] _. left. apply remove_quiet_restores; [exact Hq|]. rewrite Hf2, Hf1. exact Hinv.
      * intros [= <- <-] _. right. split; [reflexivity|]. split; [|split; [rewrite Hf2, Hf1; reflexivity|exists j; exact Hpj]].
        intros Hnil. rewrite Hnil in Hj. cbn [length] in Hj. lia.
    + destruct (s_dest s) as [d|].
      * assert (Hinv2 : staged_inv m0 (s_tmp s) (wfs w2)) by (rewrite Hf2, Hf1; exact Hinv).
        destruct (rename_cases pl m0 (s_tmp s) d w2 Hinv2) as [(w3 & -> & Hf3 & Hc3 & Hp3)|(f & w3 & -> & _)];
          cbv beta iota zeta.
        -- intros [= <- <-] _. left. apply remove_quiet_restores.
           ++ rewrite Hc3. eapply amo_quiet; [exact Hamo|exact Hp3].
           ++ rewrite Hf3. exact Hinv2.
        -- intros [= <- <-] Hr. congruence.
      * intros [= <- <-] Hr. congruence.
Qed.

Lemma open_all_spec todo : forall opened w,
  wfs (snd (open_all pl opened todo w)) = wfs w /\ wcnt w <= wcnt (snd (open_all pl opened todo w)).
Proof.
  induction todo as [|p ps IH]; intros opened w; cbn [open_all].
  - cbn. split; [reflexivity|lia].
  - destruct (open_rd_cases pl p w) as [(e & w1 & -> & Hf1 & Hc1)|(w1 & -> & Hf1 & Hc1)]; cbv beta iota zeta.
    + pose proof (close_all_spec pl (rev opened) w1) as (Hf2 & Hc2 & _ & _). cbn [snd].
      split; [congruence|lia].
    + specialize (IH (p :: opened) w1). destruct IH as [I1 I2]. split; [congruence|lia].
Qed.

Lemma tmpfile_some inF outF o :
  match outF with Some _ => if negb (opt_eqb inF outF) then outF else None | None => None end = Some o ->
  outF = Some o /\ opt_eqb inF outF = false.
Proof.
  destruct outF as [o'|]; [|discriminate].
  destruct (opt_eqb inF (Some o')) eqn:E; cbn; [discriminate|]. intros [= ->]. split; reflexivity.
Qed.

(* the residual case of the api skeleton: a new output was asked for, inputs are open, and the final
   filesystem is the original one plus that output *)
Definition kept_new_output (m0 : gmap positive file) (ins : list positive) (inF outF : option positive)
           (m' : gmap positive file) : Prop :=
  exists o, outF = Some o /\ opt_eqb inF outF = false /\ ins <> [] /\ staged_inv m0 o m'.

Lemma api_file_safe_gen k ins inF outF chunks fin w r w' :
  (fin = COk \/ quiet pl (wcnt w)) ->
  safe_for k fin ->
  api_file pl fresh k ins inF outF chunks fin w = (r, w') -> r <> COk ->
  wfs w' = wfs w \/ (fin = COk /\ (exists j, pl j = true) /\ kept_new_output (wfs w) ins inF outF (wfs w')).
Proof.
  intros Hcause Hkey. pose proof (safe_for_not_always k fin Hkey) as Hna. unfold api_file.
  pose proof (open_all_spec ins [] w) as (Hf1 & Hc1).
  destruct (open_all pl [] ins w) as [b w1]. cbn [fst snd] in *.
  destruct b.
  { intros [= <- <-] _. left. exact Hf1. }
  set (tmpFile := match outF with Some _ => if negb (opt_eqb inF outF) then outF else None | None => None end).
  pose proof (open_staged_spec ins inF tmpFile w1) as Hopen.
  destruct (open_staged pl fresh ins inF tmpFile w1) as [s w2|e w2]; cbn [open_post] in Hopen.
  2: { destruct Hopen as (Hf2 & Hc2).
       pose proof (close_all_spec pl ins w2) as (Hf3 & _).
       intros [= <- <-] _. left. congruence. }
  destruct Hopen as (Hinv2 & Hout & Hins & Hc2 & Hdest). rewrite Hf1 in Hinv2.
  unfold with_defer. rewrite Hout.
  pose proof (body_spec pl (wfs w) (s_tmp s) chunks fin w2 Hinv2) as (Hinv3 & Hc3 & Hres).
  destruct (body pl (s_tmp s) chunks fin w2) as [rb w3]. cbn [fst snd] in *.
  assert (Hcases : (rb = COk /\ fin = COk) \/ (decide k rb = ACleanup /\ quiet pl (wcnt w3))).
  { destruct Hres as [Hfin|(Herr & j & Hj & Hpj)].
    - subst rb. destruct Hcause as [->|Hq]; [left; split; reflexivity|].
      destruct fin; [left; split; reflexivity| |].
      + right. split; [destruct k; first [reflexivity|exfalso; apply Hna; reflexivity]|]. eapply quiet_mono; [exact Hq|lia].
      + right. split; [destruct Hkey as [->|[_ Hne]]; [reflexivity|congruence]|]. eapply quiet_mono; [exact Hq|lia].
    - subst rb. right. split; [destruct k; first [reflexivity|exfalso; apply Hna; reflexivity]|]. eapply amo_quiet_lt; [exact Hamo|exact Hpj|lia]. }
  destruct Hcases as [[-> ->]|[Hcm Hq]].
  - replace (decide k COk) with ACommit by (destruct k; first [reflexivity|exfalso; apply Hna; reflexivity]).
    destruct (commit pl s w3) as [rc w4] eqn:Hcommit.
    intros [= <- <-] Hr.
    destruct (commit_spec (wfs w) s w3 rc w4 Hinv3 Hcommit Hr) as [Hback|(Hd & Hne & Hsame & Hflt)].
    + left. exact Hback.
    + right. split; [reflexivity|]. split; [exact Hflt|]. destruct (Hdest Hd) as [Htmp Hneq]. apply tmpfile_some in Htmp. destruct Htmp as [Ho Hoe].
      exists (s_tmp s). split; [exact Ho|]. split; [exact Hoe|]. split; [rewrite <- Hins; exact Hne|].
      rewrite Hsame. exact Hinv3.
  - rewrite Hcm. intros [= <- <-] _. left. apply cleanup_restores; [exact Hq|exact Hinv3].
Qed.
End ApiProofs.

(* ---------- closed statements for the api skeleton ---------- *)
(* exactly one cause of failure: either no filesystem fault at all (the body may end in an error or
   a panic), or a body that would succeed and a single injected fault at some call index *)
Definition one_cause (pl : plan) (fin : ctl) : Prop :=
  pl = nofault \/ (fin = COk /\ exists n, pl = single n).

Lemma one_cause_amo pl fin : one_cause pl fin -> amo pl /\ (fin = COk \/ quiet pl 0).
Proof.
  intros [->|[-> [n ->]]].
  - split; [apply amo_nofault|right; apply nofault_quiet].
  - split; [apply amo_single|left; reflexivity].
Qed.

(* every pre-existing path has the same contents and mode, and the set of paths is the same *)
Definition unchanged (m0 m' : gmap positive file) : Prop :=
  (forall p, m' !! p = m0 !! p) /\ (dom m' : gset positive) = dom m0.
Lemma eq_unchanged (m0 m' : gmap positive file) : m' = m0 -> unchanged m0 m'.
Proof. intros ->. split; reflexivity. Qed.

Lemma api_staged_fault_safe_partial_proof fresh :
  (forall m, m !! fresh m = None) ->
  forall pl fin, one_cause pl fin ->
  forall k ins inF outF chunks m0 tr, safe_for k fin ->
  forall r w', api_file pl fresh k ins inF outF chunks fin (W m0 0 tr) = (r, w') -> r <> COk ->
  unchanged m0 (wfs w') \/
  (fin = COk /\ pl <> nofault /\ kept_new_output m0 ins inF outF (wfs w')).
Proof.
  intros Hfresh pl fin Hcause k ins inF outF chunks m0 tr Hkey r w' Hrun Hr.
  destruct (one_cause_amo pl fin Hcause) as [Hamo Hq].
  destruct (api_file_safe_gen pl fresh Hfresh Hamo k ins inF outF chunks fin (W m0 0 tr) r w' Hq Hkey Hrun Hr)
    as [Heq|(Hfin & (j & Hj) & Hkept)].
  - left. apply eq_unchanged. exact Heq.
  - right. split; [exact Hfin|]. split; [|exact Hkept]. intros ->. discriminate Hj.
Qed.

Lemma api_staged_fault_safe_proof fresh :
  (forall m, m !! fresh m = None) ->
  forall pl fin, one_cause pl fin ->
  forall k ins inF outF chunks m0 tr, safe_for k fin ->
  (ins = [] \/ forall o, outF = Some o -> opt_eqb inF outF = false -> is_Some (m0 !! o)) ->
  forall r w', api_file pl fresh k ins inF outF chunks fin (W m0 0 tr) = (r, w') -> r <> COk ->
  unchanged m0 (wfs w').
Proof.
  intros Hfresh pl fin Hcause k ins inF outF chunks m0 tr Hkey Hrel r w' Hrun Hr.
  destruct (api_staged_fault_safe_partial_proof fresh Hfresh pl fin Hcause k ins inF outF chunks m0 tr Hkey r w' Hrun Hr)
    as [Hu|(_ & _ & o & Ho & Hne & Hins & (Hnone & _))]; [exact Hu|].
  exfalso. destruct Hrel as [Hnil|Hex]; [contradiction|].
  destruct (Hex o Ho Hne) as [f Hf]. congruence.
Qed.

(* a panicking body never makes the function return nil *)
Lemma body_panic_not_ok t cs : forall w0, fst (body nofault t cs CPanic w0) <> COk.
Proof.
  induction cs as [|c cs IH]; intros w0; cbn [body]; [cbn; discriminate|].
  unfold write, call, nofault. destruct (wfs w0 !! t); cbv beta iota zeta; [apply IH|cbn; discriminate].
Qed.

Lemma api_file_panic_not_ok fresh ins inF outF chunks w r w' :
  api_file nofault fresh KFlag ins inF outF chunks CPanic w = (r, w') -> r <> COk.
Proof.
  unfold api_file. destruct (open_all nofault [] ins w) as [[] w1]; [intros [= <- <-]; discriminate|].
  destruct (open_staged _ _ _ _ _ _) as [s w2|e w2]; [|intros [= <- <-]; discriminate].
  unfold with_defer.
  pose proof (body_panic_not_ok (s_out s) chunks w2) as Hb.
  destruct (body nofault (s_out s) chunks CPanic w2) as [rb w3]. cbn [fst] in Hb.
  destruct rb; [congruence| |].
  - cbn [decide]. intros [= <- <-]. discriminate.
  - cbn [decide]. intros [= <- <-]. discriminate.
Qed.

(* flag_keyed_panic_safe: a skeleton whose deferred decision reads a completion flag that is set
   after the last fallible step leaves the filesystem untouched when the body panics *)
Lemma flag_keyed_panic_safe_proof fresh :
  (forall m, m !! fresh m = None) ->
  forall ins inF outF chunks m0 tr r w',
  api_file nofault fresh KFlag ins inF outF chunks CPanic (W m0 0 tr) = (r, w') ->
  r <> COk /\ unchanged m0 (wfs w').
Proof.
  intros Hfresh ins inF outF chunks m0 tr r w' Hrun.
  pose proof (api_file_panic_not_ok fresh ins inF outF chunks _ r w' Hrun) as Hr.
  split; [exact Hr|].
  destruct (api_staged_fault_safe_partial_proof fresh Hfresh nofault CPanic (or_introl eq_refl)
              KFlag ins inF outF chunks m0 tr (or_introl eq_refl) r w' Hrun Hr) as [Hu|(Hfin & _)];
    [exact Hu|discriminate Hfin].
Qed.

(* err_keyed_panic_refuted: the same skeleton keyed on the named error variable publishes the
   partial staging file over an existing output when the body panics.
   Witness: out = path 2 exists with contents [7;7]; the body writes the single chunk [1] and panics. *)
Definition refute_m0 : gmap positive file := {[ 2%positive := File [7%N; 7%N] mode_new ]}.
Lemma err_keyed_panic_refuted_proof :
  exists r w', api_file nofault fresh_path KErr [] None (Some 2%positive) [[1%N]] CPanic (W refute_m0 0 []) = (r, w') /\
    r = CPanic /\
    refute_m0 !! 2%positive = Some (File [7%N; 7%N] mode_new) /\
    wfs w' !! 2%positive = Some (File [1%N] mode_new) /\
    ~ unchanged refute_m0 (wfs w').
Proof.
  eexists _, _. split; [vm_compute; reflexivity|]. split; [reflexivity|].
  split; [vm_compute; reflexivity|]. split; [vm_compute; reflexivity|].
  intros [Hsame _]. specialize (Hsame 2%positive). vm_compute in Hsame. discriminate Hsame.
Qed.

(* the residual case is real: a single close fault on the input while committing a new output keeps it *)
Lemma api_close_input_fault_keeps_new_output_refuted_proof :
  exists n r w', api_file (single n) fresh_path KFlag [1%positive] (Some 1%positive) (Some 2%positive) [[1%N]] COk
                   (W {[ 1%positive := File [5%N] mode_new ]} 0 []) = (r, w') /\
    r = CErr /\ wfs w' !! 2%positive = Some (File [1%N] mode_new).
Proof.
  exists 4. eexists _, _. split; [vm_compute; reflexivity|]. split; [reflexivity|vm_compute; reflexivity].
Qed.
