(* C36 — Bookmark export and import round-trip.
   Property theorems only; each is closed by an exact lemma and followed by Print Assumptions.

   Model (C36/Model.v): forest = bookmark tree in first-child/next-sibling form;
   to_outline pc maxd base f = AddBookmarks (replace) on a document with pc pages: the outline
   object graph g, the /First reference and the /Dests name tree T;  from_outline maxd g T first =
   Bookmarks (what ExportBookmarksJSON serialises);  dests_resolve g T = every item's /Dest name
   looks up, in T, the destination array created for that item. *)
From Coq Require Import List NArith ZArith Bool.
Import ListNotations.
From PV Require Import C36.Model C36.Proofs.
Open Scope Z_scope.

(* FULL STATEMENT (false for the code as written, see C36_roundtrip_refuted):
     forall pc maxd base f g first T, to_outline pc maxd base f = IOk g first T ->
       titles_clean f = true -> from_outline maxd g T first = ROk f.
   Proved: the same under dests_resolve g T = true, i.e. outside the defect class
   "a renamed duplicate title collides with a key in another name-tree leaf".
   Missing for the full statement: dests_resolve for all forests (false), or at least for forests
   with pairwise distinct titles (true as far as tested, not proved: it needs the sortedness /
   limits invariant of the name tree, which is property C39's subject). *)
Theorem C36_roundtrip_partial : forall pc maxd base f g first T,
  to_outline pc maxd base f = IOk g first T ->       (* import accepts f *)
  titles_clean f = true ->                            (* titles as an export writes them *)
  dests_resolve g T = true ->
  from_outline maxd g T first = ROk f.                (* titles, pages, nesting, order, colour, bold, italic *)
Proof. exact roundtrip_partial. Qed.
Print Assumptions C36_roundtrip_partial.

(* export -> import -> export gives the first export again (same proviso) *)
Theorem C36_export_import_export_partial : forall maxd g T first f pc base g' first' T',
  from_outline maxd g T first = ROk f ->
  to_outline pc maxd base f = IOk g' first' T' ->
  dests_resolve g' T' = true ->
  from_outline maxd g' T' first' = ROk f.
Proof. exact export_import_export_partial. Qed.
Print Assumptions C36_export_import_export_partial.

(* the faithful model violates the unconditional round trip: a genuine defect of pdfcpu *)
Theorem C36_roundtrip_refuted : exists pc maxd base f g first T f',
  to_outline pc maxd base f = IOk g first T /\ titles_clean f = true /\
  from_outline maxd g T first = ROk f' /\ f' <> f /\ dests_resolve g T = false.
Proof. exact roundtrip_refuted. Qed.
Print Assumptions C36_roundtrip_refuted.

(* Reading bookmarks terminates on ANY outline graph - cyclic /Next or /First chains, self
   references, dangling references, any name tree: the fuel |g|+1 of from_outline never runs out
   (so the result is an error or a forest), and a forest has at most one bookmark per object. *)
Theorem C36_export_terminates : forall maxd g T first,
  from_outline maxd g T first <> RFuel /\
  forall f, from_outline maxd g T first = ROk f -> (count f <= length g)%nat.
Proof. exact from_outline_total. Qed.
Print Assumptions C36_export_terminates.

(* ... for every amount of fuel above the number of unvisited objects, with any resolver *)
Theorem C36_reader_fuel_suffices : forall fuel g R maxd ir depth vis,
  (unvis g vis < fuel)%nat -> read_items fuel g R maxd ir depth vis <> RFuel.
Proof. exact read_fuel_any. Qed.
Print Assumptions C36_reader_fuel_suffices.

(* an export never contains an empty title or a byte below 32: the first export normalises *)
Theorem C36_export_normal_titles : forall maxd g T first f,
  from_outline maxd g T first = ROk f -> titles_clean f = true.
Proof. exact export_normal. Qed.
Print Assumptions C36_export_normal_titles.

(* non-vacuity: a nested forest with duplicate titles, colour and styles satisfies every hypothesis
   of the round trip; a cyclic graph and a self reference are rejected, not looped on *)
Example C36_nonvacuous :
  let f := Node [65%N] 1 true true (Some (1, 2, 3))
             (Node [66%N] 1 false true None Nil (Node [66%N] 2 true false None Nil Nil))
             (Node [65%N] 2 false false None Nil Nil) in
  (exists g first T, to_outline 3 100 7 f = IOk g first T /\ titles_clean f = true /\
                     dests_resolve g T = true /\ from_outline 100 g T first = ROk f) /\
  (let it := mkItem (Some [65%N]) (DPage 1) FNone None (Some 5%N) None None None None None in
   from_outline 100 [(5%N, OItem it)] empty_tree (Some 5%N) = RErr ECycle) /\
  (let a := mkItem (Some [65%N]) (DPage 1) (FRef 6%N) None None None None None None None in
   let b := mkItem (Some [66%N]) (DPage 1) (FRef 5%N) None None None None None None None in
   from_outline 100 [(5%N, OItem a); (6%N, OItem b)] empty_tree (Some 5%N) = RErr ECycle).
Proof.
  split; [|split; vm_compute; reflexivity].
  destruct (to_outline 3 100 7 _) as [g first T|e] eqn:E; [|vm_compute in E; discriminate].
  exists g, first, T. vm_compute in E. inversion E; subst; clear E.
  repeat split; vm_compute; reflexivity.
Qed.
