(* C36 — proofs about the bookmark import/export model: the graph built by import, the round trip
   (under "every destination name resolves to its own destination"), totality of the reader on
   arbitrary graphs, and normal form of exported titles. *)
From Coq Require Import List NArith ZArith Bool Lia ZifyBool ZifyNat ZifyN.
Import ListNotations.
From PV Require Import C36.Model.
Open Scope Z_scope.

(* ------------------------------------------------------------------ *)
(* lookup *)
Lemma lookup_app : forall a b id,
  lookup (a ++ b) id = match lookup a id with Some o => Some o | None => lookup b id end.
Proof.
  induction a as [|[i o] a IH]; intros b id; simpl.
  - reflexivity.
  - destruct (N.eqb i id); [reflexivity | apply IH].
Qed.

Lemma lookup_none_range : forall a lo hi id,
  (forall i o, In (i, o) a -> (lo <= i < hi)%N) -> (id < lo \/ hi <= id)%N -> lookup a id = None.
Proof.
  induction a as [|[i o] a IH]; intros lo hi id Hr Hid; simpl.
  - reflexivity.
  - destruct (N.eqb i id) eqn:E.
    + apply N.eqb_eq in E. subst i. specialize (Hr id o (or_introl eq_refl)). lia.
    + apply IH with lo hi; [|exact Hid]. intros i' o' Hin. apply Hr with o'. right. exact Hin.
Qed.

Lemma lookup_in_dom : forall g id o, lookup g id = Some o -> In id (map fst g).
Proof.
  induction g as [|[i o'] g IH]; intros id o H; simpl in *.
  - discriminate.
  - destruct (N.eqb i id) eqn:E.
    + left. apply N.eqb_eq. exact E.
    + right. apply IH with o. exact H.
Qed.

Lemma is_nil_true : forall f, is_nil f = true -> f = Nil.
Proof. intros [|]; simpl; [reflexivity | discriminate]. Qed.

(* ------------------------------------------------------------------ *)
(* what import builds: contiguous object numbers, every new object is found under its number *)
Lemma build_inv : forall f parent prev n T es n' T' l,
  build f parent prev n T = (es, n', T', l) ->
  (n <= n')%N /\ length es = (2 * count f)%nat /\
  (forall id o, In (id, o) es -> (n <= id < n')%N) /\
  (forall id o, In (id, o) es -> lookup es id = Some o).
Proof.
  induction f as [|t p bo it c kids IHk rest IHr]; intros parent prev n T es n' T' l Hb.
  - simpl in Hb. inversion Hb; subst.
    split; [lia|]. split; [reflexivity|]. split; intros id o [].
  - simpl in Hb.
    destruct (tadd T t n) as [T1 k] eqn:Ht.
    destruct (build kids (n + 1)%N None (n + 2)%N T1) as [[[ek n1] T2] lastk] eqn:Hbk.
    destruct (build rest parent (Some (n + 1)%N) n1 T2) as [[[er n2] T3] lst] eqn:Hbr.
    inversion Hb; subst; clear Hb.
    destruct (IHk _ _ _ _ _ _ _ _ Hbk) as (Hk1 & Hk2 & Hk3 & Hk4).
    destruct (IHr _ _ _ _ _ _ _ _ Hbr) as (Hr1 & Hr2 & Hr3 & Hr4).
    assert (Hrange : forall id o, In (id, o) (ek ++ er) -> (n + 2 <= id < n')%N).
    { intros id o Hin. apply in_app_or in Hin. destruct Hin as [Hin|Hin].
      - apply Hk3 in Hin. lia.
      - apply Hr3 in Hin. lia. }
    split; [|split; [|split]].
    + lia.
    + simpl. rewrite app_length, Hk2, Hr2. lia.
    + intros id o [H|[H|H]].
      * inversion H; subst. lia.
      * inversion H; subst. lia.
      * apply Hrange in H. lia.
    + intros id o [H|[H|H]].
      * inversion H; subst. simpl. rewrite N.eqb_refl. reflexivity.
      * inversion H; subst. simpl.
        replace (N.eqb n (n + 1)) with false by (symmetry; apply N.eqb_neq; lia).
        rewrite N.eqb_refl. reflexivity.
      * pose proof (Hrange _ _ H) as Hid. simpl.
        replace (N.eqb n id) with false by (symmetry; apply N.eqb_neq; lia).
        replace (N.eqb (n + 1) id) with false by (symmetry; apply N.eqb_neq; lia).
        rewrite lookup_app. apply in_app_or in H. destruct H as [H|H].
        -- rewrite (Hk4 _ _ H). reflexivity.
        -- rewrite (lookup_none_range ek (n + 2)%N n1 id Hk3).
           ++ apply Hr4. exact H.
           ++ apply Hr3 in H. lia.
Qed.

(* ------------------------------------------------------------------ *)
(* one unfolding step of the reader *)
Lemma read_none : forall fuel g R maxd depth vis,
  read_items fuel g R maxd None depth vis = ROk (Nil, vis).
Proof. intros [|fuel]; reflexivity. Qed.

Lemma read_items_eq : forall f g R maxd id depth vis,
  read_items (S f) g R maxd (Some id) depth vis =
      if mem id vis then RErr ECycle else
      let vis1 := id :: vis in
      match (match lookup g id with
             | None => Some empty_item
             | Some (OItem it) => Some it
             | Some (ODest _) => None
             end) with
      | None => RErr EDeref
      | Some it =>
        let t := strip (match i_title it with Some t => t | None => [] end) in
        match t with
        | [] => read_items f g R maxd (i_next it) depth vis1
        | _ =>
          match i_dest it with
          | DNone => read_items f g R maxd (i_next it) depth vis1
          | d =>
            match page_of g R d with
            | None => RErr EDest
            | Some p =>
              let bo := match i_flags it with Some fl => Z.land fl 2 >? 0 | None => false end in
              let itl := match i_flags it with Some fl => Z.land fl 1 >? 0 | None => false end in
              match (match i_first it with
                     | FNone => ROk (Nil, vis1)
                     | FBad => RErr EFirst
                     | FRef c => if depth + 1 >? maxd then RErr EDepth
                                 else read_items f g R maxd (Some c) (depth + 1) vis1
                     end) with
              | ROk (kids, vis2) =>
                  match read_items f g R maxd (i_next it) depth vis2 with
                  | ROk (rest, vis3) => ROk (Node t p bo itl (i_color it) kids rest, vis3)
                  | RErr e => RErr e
                  | RFuel => RFuel
                  end
              | RErr e => RErr e
              | RFuel => RFuel
              end
            end
          end
        end
      end.
Proof. reflexivity. Qed.

(* ------------------------------------------------------------------ *)
(* round trip *)
Definition first_of (f : forest) (n : N) : option N := if is_nil f then None else Some (n + 1)%N.

Lemma strip_clean : forall t, forallb (fun b => N.leb 32 b) t = true -> strip t = t.
Proof.
  induction t as [|b t IH]; intros H; simpl in *.
  - reflexivity.
  - apply andb_true_iff in H. destruct H as [Hb Ht]. unfold strip in *. simpl. rewrite Hb.
    f_equal. apply IH. exact Ht.
Qed.

Lemma style_decode : forall bo it,
  let fl := (if style bo it >? 0 then Some (style bo it) else None) in
  match fl with Some x => Z.land x 2 >? 0 | None => false end = bo /\
  match fl with Some x => Z.land x 1 >? 0 | None => false end = it.
Proof. intros [|] [|]; split; reflexivity. Qed.

Lemma mem_false_notin : forall id vis, ~ In id vis -> mem id vis = false.
Proof.
  intros id vis H. unfold mem. destruct (existsb (N.eqb id) vis) eqn:E; [|reflexivity].
  apply existsb_exists in E. destruct E as [x [Hin Hx]]. apply N.eqb_eq in Hx. subst x. contradiction.
Qed.

Lemma read_build : forall f parent prev n T es n' T' l,
  build f parent prev n T = (es, n', T', l) ->
  forall g R maxd pc depth pprev vis fuel,
    (forall id o, In (id, o) es -> lookup g id = Some o) ->
    (forall id it, In (id, OItem it) es -> exists k, i_dest it = DName k /\ R k = Some (id - 1)%N) ->
    (forall v, In v vis -> (v < n \/ n' <= v)%N) ->
    titles_clean f = true ->
    check pc maxd depth pprev f = None ->
    (count f < fuel)%nat ->
    exists vis', read_items fuel g R maxd (first_of f n) depth vis = ROk (f, vis') /\
                 forall v, In v vis' -> In v vis \/ (n <= v < n')%N.
Proof.
  induction f as [|t p bo it c kids IHk rest IHr];
    intros parent prev n T es n' T' l Hb g R maxd pc depth pprev vis fuel Hg HR Hvis Hclean Hchk Hfuel.
  - simpl in Hb. inversion Hb; subst. unfold first_of. simpl. rewrite read_none.
    exists vis. split; [reflexivity | intros v Hv; left; exact Hv].
  - pose proof (build_inv _ _ _ _ _ _ _ _ _ Hb) as (_ & _ & _ & _).
    simpl in Hb.
    destruct (tadd T t n) as [T1 k] eqn:Ht.
    destruct (build kids (n + 1)%N None (n + 2)%N T1) as [[[ek n1] T2] lastk] eqn:Hbk.
    destruct (build rest parent (Some (n + 1)%N) n1 T2) as [[[er n2] T3] lst] eqn:Hbr.
    inversion Hb; subst; clear Hb.
    destruct (build_inv _ _ _ _ _ _ _ _ _ Hbk) as (Hk1 & _ & Hk3 & _).
    destruct (build_inv _ _ _ _ _ _ _ _ _ Hbr) as (Hr1 & _ & Hr3 & _).
    set (itm := mkItem (Some t) (DName k) (if is_nil kids then FNone else FRef (n + 3)%N) lastk
                  (if is_nil rest then None else Some (n1 + 1)%N) prev (Some parent)
                  (if is_nil kids then None else Some (Z.of_nat (count kids))) c
                  (if style bo it >? 0 then Some (style bo it) else None)) in *.
    (* pieces of the hypotheses *)
    simpl in Hclean. repeat (apply andb_true_iff in Hclean; destruct Hclean as [Hclean ?]).
    rename H into Hcr, H0 into Hck, H1 into Hct. rename Hclean into Hne.
    simpl in Hchk.
    destruct (match pprev with Some q => p <? q | None => false end); [discriminate|].
    destruct ((p <? 1) || (pc <? p)); [discriminate|].
    destruct fuel as [|fuel]; [simpl in Hfuel; lia|]. simpl in Hfuel.
    unfold first_of. simpl is_nil. cbv iota.
    rewrite read_items_eq.
    rewrite mem_false_notin by (intros Hin; apply Hvis in Hin; lia).
    rewrite (Hg (n + 1)%N (OItem itm)) by (right; left; reflexivity).
    unfold itm. cbn [i_title i_dest i_flags i_color i_next i_first]. rewrite (strip_clean t Hct).
    destruct t as [|b t']; [simpl in Hne; discriminate|].
    destruct (HR (n + 1)%N itm) as [k0 [Hd HRk]]; [right; left; reflexivity|].
    unfold itm in Hd. simpl in Hd. inversion Hd; subst k0.
    unfold page_of. rewrite HRk. replace (n + 1 - 1)%N with n by lia.
    rewrite (Hg n (ODest p)) by (left; reflexivity).
    destruct (style_decode bo it) as [Hbo Hit]. cbv zeta in Hbo, Hit. rewrite Hbo, Hit.
    (* kids *)
    assert (Hkids : exists vis2,
      match (if is_nil kids then FNone else FRef (n + 3)%N) with
      | FNone => ROk (Nil, (n + 1)%N :: vis)
      | FBad => RErr EFirst
      | FRef c0 => if depth + 1 >? maxd then RErr EDepth
                   else read_items fuel g R maxd (Some c0) (depth + 1) ((n + 1)%N :: vis)
      end = ROk (kids, vis2) /\
      (forall v, In v vis2 -> In v ((n + 1)%N :: vis) \/ (n + 2 <= v < n1)%N) /\
      check pc maxd depth (Some p) rest = None).
    { destruct (is_nil kids) eqn:Hnk.
      - apply is_nil_true in Hnk. subst kids. exists ((n + 1)%N :: vis).
        split; [reflexivity|]. split; [intros v Hv; left; exact Hv|]. exact Hchk.
      - assert (Hkne : kids <> Nil) by (intros E; subst kids; discriminate).
        destruct kids as [|kt kp kbo kit kc kk kr] eqn:Ekids; [contradiction|]. rewrite <- Ekids in *.
        assert (Hchk' : (depth + 1 >? maxd) = false /\
                        check pc maxd (depth + 1) (Some p) kids = None /\
                        check pc maxd depth (Some p) rest = None).
        { rewrite Ekids in Hchk. rewrite <- Ekids in Hchk.
          destruct (depth + 1 >? maxd); [discriminate|].
          destruct (check pc maxd (depth + 1) (Some p) kids); [discriminate|].
          repeat split; assumption. }
        destruct Hchk' as (Hd1 & Hck1 & Hck2). rewrite Hd1.
        destruct (IHk _ _ _ _ _ _ _ _ Hbk g R maxd pc (depth + 1) (Some p) ((n + 1)%N :: vis) fuel)
          as [vis2 [Hread Hv2]].
        + intros id o Hin. apply Hg. right. right. apply in_or_app. left. exact Hin.
        + intros id it0 Hin. apply HR. right. right. apply in_or_app. left. exact Hin.
        + intros v [Hv|Hv]; [subst v; lia | apply Hvis in Hv; lia].
        + exact Hck.
        + exact Hck1.
        + lia.
        + exists vis2. unfold first_of in Hread. rewrite Hnk in Hread.
          replace (n + 2 + 1)%N with (n + 3)%N in Hread by lia.
          split; [exact Hread|]. split; [exact Hv2 | exact Hck2]. }
    destruct Hkids as [vis2 (Hrk & Hv2 & Hck2)]. rewrite Hrk.
    (* rest *)
    destruct (IHr _ _ _ _ _ _ _ _ Hbr g R maxd pc depth (Some p) vis2 fuel) as [vis3 [Hread3 Hv3]].
    + intros id o Hin. apply Hg. right. right. apply in_or_app. right. exact Hin.
    + intros id it0 Hin. apply HR. right. right. apply in_or_app. right. exact Hin.
    + intros v Hv. apply Hv2 in Hv. destruct Hv as [[Hv|Hv]|Hv];
        [subst v; lia | apply Hvis in Hv; lia | lia].
    + exact Hcr.
    + exact Hck2.
    + lia.
    + unfold first_of in Hread3. rewrite Hread3. exists vis3. split; [reflexivity|].
      intros v Hv. apply Hv3 in Hv. destruct Hv as [Hv|Hv]; [|right; lia].
      apply Hv2 in Hv. destruct Hv as [[Hv|Hv]|Hv];
        [right; subst v; lia | left; exact Hv | right; lia].
Qed.

Lemma roundtrip_partial : forall pc maxd base f g first T,
  to_outline pc maxd base f = IOk g first T ->
  titles_clean f = true ->
  dests_resolve g T = true ->
  from_outline maxd g T first = ROk f.
Proof.
  intros pc maxd base f g first T Hto Hclean Hres. unfold to_outline in Hto.
  destruct (is_nil f) eqn:Hnil; [discriminate|].
  destruct (0 >? maxd) eqn:Hmd; [discriminate|].
  destruct (check pc maxd 0 None f) eqn:Hchk; [discriminate|].
  destruct (build f base None (base + 1)%N empty_tree) as [[[g0 n'] T0] l] eqn:Hb.
  inversion Hto; subst; clear Hto.
  destruct (build_inv _ _ _ _ _ _ _ _ _ Hb) as (_ & Hlen & _ & Hlk).
  unfold from_outline. rewrite Hmd.
  destruct (read_build _ _ _ _ _ _ _ _ _ Hb g (tvalue T) maxd pc 0 None [] (S (length g)))
    as [vis' [Hread _]].
  - exact Hlk.
  - intros id it Hin. unfold dests_resolve in Hres. rewrite forallb_forall in Hres.
    specialize (Hres _ Hin). simpl in Hres.
    destruct (i_dest it) as [|k|p]; try discriminate.
    destruct (tvalue T k) as [d|] eqn:Etv; try discriminate.
    apply N.eqb_eq in Hres. subst d. exists k. split; [reflexivity | exact Etv].
  - intros v [].
  - exact Hclean.
  - exact Hchk.
  - lia.
  - unfold first_of in Hread. rewrite Hnil in Hread.
    replace (base + 1 + 1)%N with (base + 2)%N in Hread by lia. rewrite Hread. reflexivity.
Qed.

(* ------------------------------------------------------------------ *)
(* totality on arbitrary graphs *)
Definition unvis (g : graph) (vis : list N) : nat :=
  length (filter (fun id => negb (mem id vis)) (map fst g)).

Lemma filter_len_le : forall (p q : N -> bool) l,
  (forall x, p x = true -> q x = true) -> (length (filter p l) <= length (filter q l))%nat.
Proof.
  intros p q l H. induction l as [|x l IH]; simpl; [lia|].
  destruct (p x) eqn:Ep.
  - rewrite (H x Ep). simpl. lia.
  - destruct (q x); simpl; lia.
Qed.

Lemma filter_len_lt : forall (p q : N -> bool) l x,
  (forall y, p y = true -> q y = true) -> In x l -> p x = false -> q x = true ->
  (length (filter p l) < length (filter q l))%nat.
Proof.
  intros p q l x H. induction l as [|y l IH]; intros Hin Hp Hq; simpl; [destruct Hin|].
  destruct Hin as [E|Hin].
  - subst y. rewrite Hp, Hq. simpl. pose proof (filter_len_le p q l H). lia.
  - specialize (IH Hin Hp Hq). destruct (p y) eqn:Ep.
    + rewrite (H y Ep). simpl. lia.
    + destruct (q y); simpl; lia.
Qed.

Lemma mem_in : forall id vis, mem id vis = true <-> In id vis.
Proof.
  intros id vis. unfold mem. rewrite existsb_exists. split.
  - intros [x [Hin Hx]]. apply N.eqb_eq in Hx. subst x. exact Hin.
  - intros Hin. exists id. split; [exact Hin | apply N.eqb_refl].
Qed.

Lemma unvis_mono : forall g vis vis', incl vis vis' -> (unvis g vis' <= unvis g vis)%nat.
Proof.
  intros g vis vis' Hincl. unfold unvis. apply filter_len_le. intros x Hx.
  apply negb_true_iff in Hx. apply negb_true_iff.
  destruct (mem x vis) eqn:E; [|reflexivity].
  apply mem_in in E. apply Hincl in E. apply mem_in in E. congruence.
Qed.

Lemma unvis_cons : forall g vis id,
  In id (map fst g) -> mem id vis = false -> (unvis g (id :: vis) < unvis g vis)%nat.
Proof.
  intros g vis id Hin Hm. unfold unvis. apply filter_len_lt with id.
  - intros y Hy. apply negb_true_iff in Hy. apply negb_true_iff.
    destruct (mem y vis) eqn:E; [|reflexivity].
    apply mem_in in E. assert (In y (id :: vis)) by (right; exact E).
    apply mem_in in H. congruence.
  - exact Hin.
  - apply negb_false_iff. apply mem_in. left. reflexivity.
  - rewrite Hm. reflexivity.
Qed.

Lemma unvis_nil : forall g, unvis g [] = length g.
Proof.
  intros g. unfold unvis. simpl. rewrite <- (map_length fst g).
  induction (map fst g) as [|x l IH]; simpl; [reflexivity | rewrite IH; reflexivity].
Qed.

(* good g vis r: r is not "out of fuel", and a successful r only grows the visited set and accounts
   for every bookmark it returns with a distinct, previously unvisited object of g *)
Definition good (g : graph) (vis : list N) (r : rres (forest * list N)) : Prop :=
  r <> RFuel /\
  forall f vis', r = ROk (f, vis') -> incl vis vis' /\ (count f + unvis g vis' <= unvis g vis)%nat.

Lemma good_step : forall g vis vis1 r,
  incl vis vis1 -> good g vis1 r -> good g vis r.
Proof.
  intros g vis vis1 r Hincl [Hnf Hok]. split; [exact Hnf|].
  intros f vis' E. destruct (Hok f vis' E) as [Hi Hc]. split.
  - intros x Hx. apply Hi. apply Hincl. exact Hx.
  - pose proof (unvis_mono g vis vis1 Hincl). lia.
Qed.

Lemma read_good : forall fuel g R maxd ir depth vis,
  (unvis g vis < fuel)%nat -> good g vis (read_items fuel g R maxd ir depth vis).
Proof.
  induction fuel as [|fuel IH]; intros g R maxd ir depth vis Hf; [lia|].
  destruct ir as [id|].
  2:{ rewrite read_none. split; [discriminate|]. intros f vis' E. inversion E; subst.
      split; [apply incl_refl | simpl; lia]. }
  rewrite read_items_eq.
  destruct (mem id vis) eqn:Hm.
  { split; [discriminate | intros f vis' E; discriminate]. }
  cbv zeta.
  assert (Hincl1 : incl vis (id :: vis)) by (intros x Hx; right; exact Hx).
  destruct (lookup g id) as [[it|pg]|] eqn:Hl.
  3:{ (* dangling reference: nil dict, loop ends *)
      simpl. rewrite read_none. split; [discriminate|]. intros f vis' E. inversion E; subst.
      split; [exact Hincl1|]. pose proof (unvis_mono g vis (id :: vis) Hincl1). simpl. lia. }
  2:{ split; [discriminate | intros f vis' E; discriminate]. }
  assert (Hdec : (unvis g (id :: vis) < unvis g vis)%nat).
  { apply unvis_cons; [|exact Hm]. apply lookup_in_dom with (OItem it). exact Hl. }
  assert (Hcont : good g vis (read_items fuel g R maxd (i_next it) depth (id :: vis))).
  { apply good_step with (id :: vis); [exact Hincl1|]. apply IH. lia. }
  destruct (strip match i_title it with Some t => t | None => [] end) as [|b t] eqn:Hs.
  { exact Hcont. }
  destruct (i_dest it) as [|k|pp] eqn:Hd; [exact Hcont| |].
  - (* named destination *)
    destruct (page_of g R (DName k)) as [p|]; [|split; [discriminate | intros f vis' E; discriminate]].
    destruct (i_first it) as [|c|] eqn:Hfi.
    + (* no kids *)
      pose proof (IH g R maxd (i_next it) depth (id :: vis)) as Hr. specialize (Hr ltac:(lia)).
      destruct Hr as [Hnf Hok].
      destruct (read_items fuel g R maxd (i_next it) depth (id :: vis)) as [[rest vis3]|e|] eqn:Er.
      * split; [discriminate|]. intros f vis' E. inversion E; subst.
        destruct (Hok rest vis' eq_refl) as [Hi Hc]. split.
        -- intros x Hx. apply Hi. right. exact Hx.
        -- simpl. lia.
      * split; [discriminate | intros f vis' E; discriminate].
      * contradiction.
    + destruct (depth + 1 >? maxd); [split; [discriminate | intros f vis' E; discriminate]|].
      pose proof (IH g R maxd (Some c) (depth + 1) (id :: vis)) as Hk. specialize (Hk ltac:(lia)).
      destruct Hk as [Hnfk Hokk].
      destruct (read_items fuel g R maxd (Some c) (depth + 1) (id :: vis)) as [[kids vis2]|e|] eqn:Ek.
      * destruct (Hokk kids vis2 eq_refl) as [Hik Hck].
        pose proof (IH g R maxd (i_next it) depth vis2) as Hr. specialize (Hr ltac:(lia)).
        destruct Hr as [Hnf Hok].
        destruct (read_items fuel g R maxd (i_next it) depth vis2) as [[rest vis3]|e|] eqn:Er.
        -- split; [discriminate|]. intros f vis' E. inversion E; subst.
           destruct (Hok rest vis' eq_refl) as [Hi Hc]. split.
           ++ intros x Hx. apply Hi. apply Hik. right. exact Hx.
           ++ simpl. lia.
        -- split; [discriminate | intros f vis' E; discriminate].
        -- contradiction.
      * split; [discriminate | intros f vis' E; discriminate].
      * contradiction.
    + split; [discriminate | intros f vis' E; discriminate].
  - (* direct destination *)
    destruct (page_of g R (DPage pp)) as [p|]; [|split; [discriminate | intros f vis' E; discriminate]].
    destruct (i_first it) as [|c|] eqn:Hfi.
    + pose proof (IH g R maxd (i_next it) depth (id :: vis)) as Hr. specialize (Hr ltac:(lia)).
      destruct Hr as [Hnf Hok].
      destruct (read_items fuel g R maxd (i_next it) depth (id :: vis)) as [[rest vis3]|e|] eqn:Er.
      * split; [discriminate|]. intros f vis' E. inversion E; subst.
        destruct (Hok rest vis' eq_refl) as [Hi Hc]. split.
        -- intros x Hx. apply Hi. right. exact Hx.
        -- simpl. lia.
      * split; [discriminate | intros f vis' E; discriminate].
      * contradiction.
    + destruct (depth + 1 >? maxd); [split; [discriminate | intros f vis' E; discriminate]|].
      pose proof (IH g R maxd (Some c) (depth + 1) (id :: vis)) as Hk. specialize (Hk ltac:(lia)).
      destruct Hk as [Hnfk Hokk].
      destruct (read_items fuel g R maxd (Some c) (depth + 1) (id :: vis)) as [[kids vis2]|e|] eqn:Ek.
      * destruct (Hokk kids vis2 eq_refl) as [Hik Hck].
        pose proof (IH g R maxd (i_next it) depth vis2) as Hr. specialize (Hr ltac:(lia)).
        destruct Hr as [Hnf Hok].
        destruct (read_items fuel g R maxd (i_next it) depth vis2) as [[rest vis3]|e|] eqn:Er.
        -- split; [discriminate|]. intros f vis' E. inversion E; subst.
           destruct (Hok rest vis' eq_refl) as [Hi Hc]. split.
           ++ intros x Hx. apply Hi. apply Hik. right. exact Hx.
           ++ simpl. lia.
        -- split; [discriminate | intros f vis' E; discriminate].
        -- contradiction.
      * split; [discriminate | intros f vis' E; discriminate].
      * contradiction.
    + split; [discriminate | intros f vis' E; discriminate].
Qed.

(* reading terminates on ANY graph (cycles, self references, dangling references, any name
   resolution R): fuel |g|+1 is never exhausted, and a result has at most |g| bookmarks *)
Lemma from_outline_total : forall maxd g T first,
  from_outline maxd g T first <> RFuel /\
  forall f, from_outline maxd g T first = ROk f -> (count f <= length g)%nat.
Proof.
  intros maxd g T first. unfold from_outline.
  destruct (0 >? maxd); [split; [discriminate | intros f E; discriminate]|].
  destruct (read_good (S (length g)) g (tvalue T) maxd first 0 []) as [Hnf Hok].
  { rewrite unvis_nil. lia. }
  destruct (read_items (S (length g)) g (tvalue T) maxd first 0 []) as [[f vis]|e|] eqn:E.
  - split; [discriminate|]. intros f0 E0. inversion E0; subst.
    destruct (Hok f0 vis eq_refl) as [_ Hc]. rewrite unvis_nil in Hc. lia.
  - split; [discriminate | intros f E0; discriminate].
  - contradiction.
Qed.

(* more fuel never changes a result: the fuel in from_outline is no restriction *)
Lemma read_fuel_any : forall fuel g R maxd ir depth vis,
  (unvis g vis < fuel)%nat -> read_items fuel g R maxd ir depth vis <> RFuel.
Proof. intros. apply read_good. assumption. Qed.

(* ------------------------------------------------------------------ *)
(* exported titles are in normal form *)
Lemma forallb_strip : forall t, forallb (fun b => N.leb 32 b) (strip t) = true.
Proof.
  induction t as [|b t IH]; simpl; [reflexivity|].
  destruct (N.leb 32 b) eqn:E; simpl; [rewrite E, IH; reflexivity | exact IH].
Qed.

Lemma read_clean : forall fuel g R maxd ir depth vis f vis',
  read_items fuel g R maxd ir depth vis = ROk (f, vis') -> titles_clean f = true.
Proof.
  induction fuel as [|fuel IH]; intros g R maxd ir depth vis f vis' E.
  - destruct ir; simpl in E; [discriminate|]. inversion E; reflexivity.
  - destruct ir as [id|]; [|rewrite read_none in E; inversion E; reflexivity].
    rewrite read_items_eq in E.
    destruct (mem id vis); [discriminate|]. cbv zeta in E.
    destruct (match lookup g id with
              | Some (OItem it) => Some it | Some (ODest _) => None | None => Some empty_item end)
      as [it|]; [|discriminate].
    pose proof (forallb_strip (match i_title it with Some t => t | None => [] end)) as Hfs.
    destruct (strip match i_title it with Some t => t | None => [] end) as [|b t] eqn:Hs.
    { apply IH in E. exact E. }
    destruct (i_dest it) as [|k|pp] eqn:Hd; [apply IH in E; exact E| |].
    + destruct (page_of g R (DName k)) as [p|]; [|discriminate].
      destruct (match i_first it with
                | FNone => ROk (Nil, id :: vis)
                | FRef c => if depth + 1 >? maxd then RErr EDepth
                            else read_items fuel g R maxd (Some c) (depth + 1) (id :: vis)
                | FBad => RErr EFirst end) as [[kids vis2]|e|] eqn:Ek; try discriminate.
      destruct (read_items fuel g R maxd (i_next it) depth vis2) as [[rest vis3]|e|] eqn:Er;
        try discriminate.
      inversion E; subst. apply IH in Er.
      assert (Hkc : titles_clean kids = true).
      { destruct (i_first it) as [|c|].
        - inversion Ek; reflexivity.
        - destruct (depth + 1 >? maxd); [discriminate|]. apply IH in Ek. exact Ek.
        - discriminate. }
      cbn [titles_clean]. rewrite Hfs, Hkc, Er. reflexivity.
    + destruct (page_of g R (DPage pp)) as [p|]; [|discriminate].
      destruct (match i_first it with
                | FNone => ROk (Nil, id :: vis)
                | FRef c => if depth + 1 >? maxd then RErr EDepth
                            else read_items fuel g R maxd (Some c) (depth + 1) (id :: vis)
                | FBad => RErr EFirst end) as [[kids vis2]|e|] eqn:Ek; try discriminate.
      destruct (read_items fuel g R maxd (i_next it) depth vis2) as [[rest vis3]|e|] eqn:Er;
        try discriminate.
      inversion E; subst. apply IH in Er.
      assert (Hkc : titles_clean kids = true).
      { destruct (i_first it) as [|c|].
        - inversion Ek; reflexivity.
        - destruct (depth + 1 >? maxd); [discriminate|]. apply IH in Ek. exact Ek.
        - discriminate. }
      cbn [titles_clean]. rewrite Hfs, Hkc, Er. reflexivity.
Qed.

Lemma export_normal : forall maxd g T first f,
  from_outline maxd g T first = ROk f -> titles_clean f = true.
Proof.
  intros maxd g T first f E. unfold from_outline in E.
  destruct (0 >? maxd); [discriminate|].
  destruct (read_items (S (length g)) g (tvalue T) maxd first 0 []) as [[f0 vis]|e|] eqn:Er;
    try discriminate.
  inversion E; subst. apply read_clean in Er. exact Er.
Qed.

(* ------------------------------------------------------------------ *)
(* export, import, export *)
Lemma export_import_export_partial : forall maxd g T first f pc base g' first' T',
  from_outline maxd g T first = ROk f ->
  to_outline pc maxd base f = IOk g' first' T' ->
  dests_resolve g' T' = true ->
  from_outline maxd g' T' first' = ROk f.
Proof.
  intros maxd g T first f pc base g' first' T' Hex Him Hres.
  apply roundtrip_partial with pc base; [exact Him | | exact Hres].
  apply export_normal with maxd g T first. exact Hex.
Qed.

(* ------------------------------------------------------------------ *)
(* the unconditional round trip is false for the code as written: five top-level bookmarks
   "A"/1 "A"/2 "B"/3 "0"/4 "A"/5.  The second "A" gets the destination name "A\x01"; the leaf
   [0, A, A\x01, B] is split into [0, A] and [A\x01, B]; the third "A" lands in the first leaf, is
   renamed to "A\x01" there (insertUniqueIntoLeaf looks at that leaf only) and now shadows the
   entry of the second "A", which exports with page 5 instead of 2. *)
Definition bk (t : N) (p : Z) (r : forest) : forest := Node [t] p false false None Nil r.
Definition witness : forest := bk 65 1 (bk 65 2 (bk 66 3 (bk 48 4 (bk 65 5 Nil)))).
Definition witness_out : forest := bk 65 1 (bk 65 5 (bk 66 3 (bk 48 4 (bk 65 5 Nil)))).

Lemma roundtrip_refuted : exists pc maxd base f g first T f',
  to_outline pc maxd base f = IOk g first T /\ titles_clean f = true /\
  from_outline maxd g T first = ROk f' /\ f' <> f /\ dests_resolve g T = false.
Proof.
  exists 6, 100, 10%N, witness.
  destruct (to_outline 6 100 10 witness) as [g first T|e] eqn:E; [|vm_compute in E; discriminate].
  exists g, first, T, witness_out.
  vm_compute in E. inversion E; subst; clear E.
  split; [reflexivity|]. split; [reflexivity|]. split; [vm_compute; reflexivity|].
  split; [discriminate | vm_compute; reflexivity].
Qed.
