// Harness for C41 — CLI streams and machine-readable output behave like the file interface.
//
// Part A (K): pkg/cli.streamInOutForOperation + its finalizer (through verif_export_c41.go) are
// driven through every combination of (inFile, outFile, stdin, open, create, operation result)
// in a real scratch directory with os.Stdin/os.Stdout redirected and the CLI logger pointed at
// stdout; source, sink, logger state, finalize result, file-system residue and the captured
// stdout bytes are compared with the extracted model (k_stream).
//
// Part B (O + K): the REAL binary is built from $VERIF_REPO/cmd/pdfcpu and, for every recipe,
// run with file arguments and with "-" (stdin from the same file, stdout captured); documents
// are compared after normalisation (object graph from the catalog, /ID, dates and XMP ignored),
// JSON output must be exactly one JSON value with nothing else on stdout (also with -v/-vv and
// with a fresh configuration directory), invalid input must give a non-zero exit status, an
// empty stdout and a message on stderr.  Every "-"-capable function of the generated table must
// be covered by a recipe or be listed in `notExercised` with a reason.
package main

import (
	"bytes"
	"crypto/sha256"
	"encoding/hex"
	"encoding/json"
	"errors"
	"fmt"
	"io"
	"os"
	"os/exec"
	"path/filepath"
	"regexp"
	"sort"
	"strings"
	"sync"
	"syscall"
	"time"

	"github.com/pdfcpu/pdfcpu/pkg/api"
	"github.com/pdfcpu/pdfcpu/pkg/cli"
	"github.com/pdfcpu/pdfcpu/pkg/log"
	"github.com/pdfcpu/pdfcpu/pkg/pdfcpu/model"
	"github.com/pdfcpu/pdfcpu/pkg/pdfcpu/types"
	"verif/vh"
)

var (
	repo    string
	scratch string
	bin     string
)

func must(err error) {
	if err != nil {
		panic(err)
	}
}

func nlist(l []int) string {
	s := make([]string, len(l))
	for i, v := range l {
		s[i] = fmt.Sprintf("%x", v)
	}
	return strings.Join(s, ",")
}

// ------------------------------------------------------------------ part A

type stdoutLogger struct{}

func (stdoutLogger) Printf(format string, args ...interface{}) {
	fmt.Fprintf(os.Stdout, format, args...)
}
func (stdoutLogger) Println(args ...interface{})               { fmt.Fprintln(os.Stdout, args...) }
func (stdoutLogger) Fatalf(format string, args ...interface{}) { fmt.Fprintf(os.Stdout, format, args...) }
func (stdoutLogger) Fatalln(args ...interface{})               { fmt.Fprintln(os.Stdout, args...) }

func errClass(err error) int {
	s := err.Error()
	switch {
	case strings.Contains(s, "create temporary input"):
		return 1
	case strings.Contains(s, "stdin is empty"):
		return 3
	case strings.Contains(s, "read stdin"):
		return 2
	case strings.Contains(s, "rewind temporary input"):
		return 4
	case strings.Contains(s, "open input"):
		return 5
	case strings.Contains(s, "create output"):
		return 6
	}
	return 99
}

func partA(r *vh.Run) {
	doc := []byte("%PDF-doc\n")
	logm := []byte("L")
	realStdin, realStdout := os.Stdin, os.Stdout
	defer func() { os.Stdin, os.Stdout = realStdin, realStdout; log.SetCLILogger(nil) }()
	n := 0
	for i := 0; i < 3; i++ {
		for o := 0; o < 3; o++ {
			for st := 0; st < 5; st++ {
				if i != 1 && st != 4 {
					continue
				}
				for op := 0; op < 2; op++ {
					if i != 2 && op != 1 {
						continue
					}
					for cr := 0; cr < 3; cr++ {
						for ok := 0; ok < 2; ok++ {
							n++
							dir := filepath.Join(scratch, fmt.Sprintf("a%d", n))
							res := scenarioA(dir, i, o, st, op, cr, ok, doc, logm)
							os.Stdin, os.Stdout = realStdin, realStdout
							r.Case("stream", []string{vh.Int(int64(i)), vh.Int(int64(o)), vh.Int(int64(st)), vh.Int(int64(op)), vh.Int(int64(cr)), vh.Int(int64(ok)), vh.Hex(doc), vh.Hex(logm)}, res)
							r.Count(fmt.Sprintf("A:in=%d,out=%d", i, o))
							os.RemoveAll(dir)
						}
					}
				}
			}
		}
	}
}

// in-process: readSeekerFromStdin behind streamInOutForOperation("-", "-") on a stdin that
// delivers the data chunks and then (code 0) fails
func stdinCopyCases(r *vh.Run) {
	realStdin, realStdout := os.Stdin, os.Stdout
	defer func() { os.Stdin, os.Stdout = realStdin, realStdout; log.SetCLILogger(nil) }()
	for ci, codes := range [][]int{{0}, {1, 0}, {9, 0}, {300, 0}, {300, 700, 0}, {5000, 0}, {300}, {300, 700}, {}} {
		dir := filepath.Join(scratch, fmt.Sprintf("s%d", ci))
		must(os.MkdirAll(dir, 0o755))
		total, faulty := 0, false
		for _, c := range codes {
			if c == 0 {
				faulty = true
			} else {
				total += c
			}
		}
		data := bytes.Repeat([]byte("A"), total)
		var in *os.File
		var err error
		if faulty {
			in, err = faultyStdin(data)
			must(err)
		} else {
			must(os.WriteFile(filepath.Join(dir, "stdin.bin"), data, 0o644))
			in, err = os.Open(filepath.Join(dir, "stdin.bin"))
			must(err)
		}
		capF, err := os.Create(filepath.Join(dir, "stdout.bin"))
		must(err)
		os.Stdin, os.Stdout = in, capF
		restore := cli.VerifSetTemporaryInputHooks(func(d, pattern string) (*os.File, error) { return os.CreateTemp(dir, pattern) }, nil)
		rs, _, fin, perr := cli.VerifStreamInOutForOperation("-", "-", "op")
		res := ""
		if perr != nil {
			res = nlist([]int{errClass(perr), 0})
		} else {
			b, _ := io.ReadAll(rs)
			res = nlist([]int{0, len(b)})
			fin(nil)
		}
		restore()
		os.Stdin, os.Stdout = realStdin, realStdout
		in.Close()
		capF.Close()
		r.Case("stdincopy", []string{nlist(codes)}, res)
		r.Count("A:stdincopy")
		os.RemoveAll(dir)
	}
}

func scenarioA(dir string, i, o, st, op, cr, ok int, doc, logm []byte) (result string) {
	defer func() {
		if p := recover(); p != nil {
			result = fmt.Sprintf("PANIC:%v", p)
		}
	}()
	must(os.MkdirAll(filepath.Join(dir, "out"), 0o755))
	must(os.MkdirAll(filepath.Join(dir, "tmp"), 0o755))
	inFile, outFile := "", ""
	switch i {
	case 1:
		inFile = "-"
	case 2:
		inFile = filepath.Join(dir, "in.pdf")
		if op == 1 {
			must(os.WriteFile(inFile, []byte("%PDF-in"), 0o644))
		}
	}
	initOut := 0
	switch o {
	case 1:
		outFile = "-"
	case 2:
		outFile = filepath.Join(dir, "out", "o.pdf")
		switch cr {
		case 1:
			must(os.WriteFile(outFile, []byte("OLD"), 0o640))
		case 2:
			outFile = filepath.Join(dir, "out", "missing", "o.pdf")
		}
	}
	if cr == 1 {
		initOut = 1
	}
	_ = initOut
	// stdin
	var stdinF *os.File
	sp := filepath.Join(dir, "stdin.bin")
	switch st {
	case 2:
		must(os.WriteFile(sp, nil, 0o644))
	default:
		must(os.WriteFile(sp, []byte("%PDF-stdin"), 0o644))
	}
	stdinF, err := os.Open(sp)
	must(err)
	if st == 1 {
		stdinF.Close() // io.Copy from a closed file fails
	}
	defer stdinF.Close()
	os.Stdin = stdinF
	tmpIn := ""
	restore := cli.VerifSetTemporaryInputHooks(
		func(d, pattern string) (*os.File, error) {
			if st == 0 {
				return nil, errors.New("injected: no temp")
			}
			f, err := os.CreateTemp(filepath.Join(dir, "tmp"), pattern)
			if err == nil {
				tmpIn = f.Name()
			}
			return f, err
		},
		func(f *os.File) error {
			if st == 3 {
				return errors.New("injected: no rewind")
			}
			_, err := f.Seek(0, io.SeekStart)
			return err
		})
	defer restore()
	capPath := filepath.Join(dir, "stdout.bin")
	capF, err := os.Create(capPath)
	must(err)
	os.Stdout = capF
	log.SetCLILogger(stdoutLogger{})

	rs, w, fin, perr := cli.VerifStreamInOutForOperation(inFile, outFile, "op")
	cliOn := 0
	if log.CLIEnabled() {
		cliOn = 1
	}
	var out []int
	snk := 9
	if perr != nil {
		out = []int{errClass(perr), 9, 9, cliOn, 0}
	} else {
		src := 0
		if rs != nil {
			if _, isTmp := cli.VerifIsTemporaryInput(rs); isTmp {
				src = 1
			} else {
				src = 2
			}
		}
		switch f := w.(type) {
		case *os.File:
			if f == capF {
				snk = 0
			} else if f.Name() == outFile {
				snk = 1
			} else {
				snk = 2
			}
		}
		log.CLI.Printf("%s", string(logm))
		_, werr := w.Write(doc)
		must(werr)
		log.CLI.Printf("%s", string(logm))
		var opErr error
		if ok == 0 {
			opErr = errors.New("operation failed")
		}
		ferr := fin(opErr)
		fok := 0
		if ferr == nil {
			fok = 1
		}
		out = []int{0, src, snk, cliOn, fok}
	}
	capF.Close()
	// residue
	outState := 0
	if o == 2 {
		if b, err := os.ReadFile(outFile); err == nil {
			switch {
			case bytes.Equal(b, []byte("OLD")):
				outState = 1
			case bytes.Equal(b, doc):
				outState = 2
			default:
				outState = 7
			}
		}
	} else if cr == 1 {
		// the model carries the initial state of an (unused) output path through
		outState = 1
	}
	tmpOut := 0
	if ents, err := os.ReadDir(filepath.Join(dir, "out")); err == nil {
		for _, e := range ents {
			if e.Name() != "o.pdf" {
				tmpOut = 1
			}
		}
	}
	tmpInLeft := 0
	if tmpIn != "" {
		if _, err := os.Stat(tmpIn); err == nil {
			tmpInLeft = 1
		}
	}
	if ents, err := os.ReadDir(filepath.Join(dir, "tmp")); err == nil && len(ents) > 0 {
		tmpInLeft = 1
	}
	out = append(out, outState, tmpOut, tmpInLeft)
	if perr == nil {
		capB, _ := os.ReadFile(capPath)
		for _, c := range capB {
			out = append(out, int(c))
		}
	} else if capB, _ := os.ReadFile(capPath); len(capB) > 0 {
		out = append(out, 255) // stdout must stay empty on a preparation error
	}
	return nlist(out)
}

// ------------------------------------------------------------------ part B: the binary

type runRes struct {
	exit   int
	stdout []byte
	stderr []byte
	err    error
}

func runBin(cfgHome, dir string, stdin []byte, args ...string) runRes {
	cmd := exec.Command(bin, args...)
	cmd.Dir = dir
	cmd.Env = []string{"HOME=" + cfgHome, "XDG_CONFIG_HOME=" + filepath.Join(cfgHome, ".config"), "PATH=/usr/bin:/bin", "GOMAXPROCS=2", "TMPDIR=" + filepath.Join(dir, "tmp")}
	os.MkdirAll(filepath.Join(dir, "tmp"), 0o755)
	if stdin != nil {
		cmd.Stdin = bytes.NewReader(stdin)
	}
	var so, se bytes.Buffer
	cmd.Stdout, cmd.Stderr = &so, &se
	done := make(chan error, 1)
	if err := cmd.Start(); err != nil {
		return runRes{exit: -1, err: err}
	}
	go func() { done <- cmd.Wait() }()
	var err error
	select {
	case err = <-done:
	case <-time.After(120 * time.Second):
		cmd.Process.Kill()
		err = errors.New("timeout")
		return runRes{exit: -2, stdout: so.Bytes(), stderr: se.Bytes(), err: err}
	}
	code := 0
	if err != nil {
		var ee *exec.ExitError
		if errors.As(err, &ee) {
			code = ee.ExitCode()
		} else {
			code = -1
		}
	}
	return runRes{exit: code, stdout: so.Bytes(), stderr: se.Bytes()}
}

// normalised document: canonical text of the object graph reachable from the catalog and the
// info dictionary; indirect references are renamed in order of first visit.
func normPDF(b []byte, upw, opw string) (string, error) {
	conf := model.NewDefaultConfiguration()
	conf.UserPW, conf.OwnerPW = upw, opw
	conf.ValidationMode = model.ValidationRelaxed
	ctx, err := api.ReadContext(bytes.NewReader(b), conf)
	if err != nil {
		return "", fmt.Errorf("read: %w", err)
	}
	if err := api.ValidateContext(ctx); err != nil {
		return "", fmt.Errorf("validate: %w", err)
	}
	var sb strings.Builder
	seen := map[int]int{}
	var walk func(o types.Object, key string, depth int) error
	walkDict := func(d types.Dict, depth int, skip map[string]bool) error {
		keys := make([]string, 0, len(d))
		for k := range d {
			keys = append(keys, k)
		}
		sort.Strings(keys)
		sb.WriteString("<<")
		for _, k := range keys {
			if skip[k] {
				continue
			}
			sb.WriteString("/" + k + " ")
			if err := walk(d[k], k, depth+1); err != nil {
				return err
			}
		}
		sb.WriteString(">>")
		return nil
	}
	walk = func(o types.Object, key string, depth int) error {
		if depth > 200 {
			return errors.New("too deep")
		}
		if ir, ok := o.(types.IndirectRef); ok {
			nr := ir.ObjectNumber.Value()
			if id, ok := seen[nr]; ok {
				fmt.Fprintf(&sb, "R%d ", id)
				return nil
			}
			seen[nr] = len(seen) + 1
			fmt.Fprintf(&sb, "D%d:", seen[nr])
			d, err := ctx.Dereference(o)
			if err != nil {
				return err
			}
			o = d
		}
		switch v := o.(type) {
		case nil:
			sb.WriteString("null ")
		case types.Dict:
			skip := map[string]bool{}
			if key == "Info" || key == "@info" {
				skip = map[string]bool{"CreationDate": true, "ModDate": true, "Producer": true}
			}
			if key == "@root" {
				skip = map[string]bool{"Metadata": true}
			}
			return walkDict(v, depth, skip)
		case types.StreamDict:
			if err := walkDict(v.Dict, depth, map[string]bool{"Length": true, "Filter": true, "DecodeParms": true, "DL": true}); err != nil {
				return err
			}
			c := v.Raw
			if err := v.Decode(); err == nil && v.Content != nil {
				c = v.Content
			}
			h := sha256.Sum256(c)
			fmt.Fprintf(&sb, "stream[%d:%s] ", len(c), hex.EncodeToString(h[:6]))
		case types.Array:
			sb.WriteString("[")
			for _, e := range v {
				if err := walk(e, "", depth+1); err != nil {
					return err
				}
			}
			sb.WriteString("]")
		default:
			sb.WriteString(subsetRe.ReplaceAllString(o.PDFString(), "/SUBSET+") + " ")
		}
		return nil
	}
	fmt.Fprintf(&sb, "pages=%d ", ctx.PageCount)
	if ctx.Root == nil {
		return "", errors.New("no root")
	}
	if err := walk(*ctx.Root, "@root", 0); err != nil {
		return "", err
	}
	if ctx.Info != nil {
		sb.WriteString(" INFO ")
		if err := walk(*ctx.Info, "@info", 0); err != nil {
			return "", err
		}
	}
	if ctx.Encrypt != nil {
		sb.WriteString(" ENCRYPTED ")
	}
	return sb.String(), nil
}

func oneJSON(b []byte) (any, error) {
	dec := json.NewDecoder(bytes.NewReader(b))
	var v any
	if err := dec.Decode(&v); err != nil {
		return nil, fmt.Errorf("not JSON: %v", err)
	}
	switch v.(type) {
	case map[string]any, []any:
	default:
		return nil, fmt.Errorf("top-level JSON value is a scalar")
	}
	rest, _ := io.ReadAll(dec.Buffered())
	more, _ := io.ReadAll(bytes.NewReader(b[dec.InputOffset():]))
	_ = rest
	if len(bytes.TrimSpace(more)) != 0 {
		return nil, fmt.Errorf("trailing bytes after the JSON value: %q", trunc(string(bytes.TrimSpace(more)), 80))
	}
	if len(b) > 0 && len(bytes.TrimSpace(b[:1])) == 0 {
		return nil, fmt.Errorf("leading white space / text before the JSON value")
	}
	return v, nil
}

func scrubJSON(v any, in string) any {
	switch x := v.(type) {
	case map[string]any:
		o := map[string]any{}
		for k, e := range x {
			if k == "creation" || k == "source" {
				continue
			}
			o[k] = scrubJSON(e, in)
		}
		return o
	case []any:
		o := make([]any, len(x))
		keys := make([]string, len(x))
		objs := true
		for i, e := range x {
			o[i] = scrubJSON(e, in)
			if _, ok := o[i].(map[string]any); !ok {
				objs = false
			}
			kb, _ := json.Marshal(o[i])
			keys[i] = string(kb)
		}
		if objs {
			// pdfcpu emits arrays of field objects in map-iteration order: compare as multisets
			sort.SliceStable(o, func(a, b int) bool {
				ka, _ := json.Marshal(o[a])
				kb, _ := json.Marshal(o[b])
				return string(ka) < string(kb)
			})
		}
		return o
	}
	return v
}

func trunc(s string, n int) string {
	if len(s) > n {
		return s[:n] + "..."
	}
	return s
}

// random font-subset prefixes (/ABCDEF+Name)
var subsetRe = regexp.MustCompile(`/[A-Z]{6}\+`)

type recipe struct {
	name  string
	execs []string // functions of pkg/cli this recipe drives through "-"
	args  []string // IN / OUT / OUTDIR placeholders
	in    string   // sample below pkg/testdata
	kind  string   // pdf | text | json | jsonout | dir
	upw   string
	opw   string
	aux   map[string]string // extra files to place in the work dir: name -> content
	quick bool
	noInOnly   bool   // the command has no "stdin in, implicit stdout" form
	expectFail bool   // the command fails on the sample both ways (e.g. no signatures present)
	knownClass string // class to report when a stdin variant's document differs from the file variant's
}

var samplesJSONBookmarks = `{"bookmarks":[{"title":"Page 1","page":1},{"title":"Page 2","page":2,"kids":[{"title":"Page 3","page":3}]}]}`
var viewerPrefJSON = `{"viewerPreferences":{"HideMenubar":true,"CenterWindow":true}}`

func recipes() []recipe {
	q := true
	return []recipe{
		{name: "optimize", execs: []string{"Optimize"}, args: []string{"optimize", "IN", "OUT"}, in: "go.pdf", kind: "pdf", quick: q},
		{name: "trim", execs: []string{"Trim"}, args: []string{"trim", "-p", "1-2", "IN", "OUT"}, in: "MULTI.pdf", kind: "pdf", quick: q},
		{name: "collect", execs: []string{"Collect"}, args: []string{"collect", "-p", "2,1,2", "IN", "OUT"}, in: "MULTI.pdf", kind: "pdf"},
		{name: "rotate", execs: []string{"Rotate"}, args: []string{"rotate", "-p", "1", "IN", "90", "OUT"}, in: "MULTI.pdf", kind: "pdf"},
		{name: "encrypt", execs: []string{"Encrypt", "runContentStreamOperation"}, args: []string{"encrypt", "--upw", "u1", "--opw", "o1", "IN", "OUT"}, in: "MULTI.pdf", kind: "pdf", upw: "u1", opw: "o1", quick: q},
		{name: "pagelayout-reset", execs: []string{"ResetPageLayout"}, args: []string{"pagelayout", "reset", "IN", "OUT"}, in: "MULTI.pdf", kind: "pdf"},
		{name: "pagelayout-set", execs: []string{"SetPageLayout"}, args: []string{"pagelayout", "set", "IN", "TwoColumnLeft", "OUT"}, in: "MULTI.pdf", kind: "pdf"},
		{name: "pagemode-set", execs: []string{"SetPageMode"}, args: []string{"pagemode", "set", "IN", "UseOutlines", "OUT"}, in: "MULTI.pdf", kind: "pdf"},
		{name: "pagemode-reset", execs: []string{"ResetPageMode"}, args: []string{"pagemode", "reset", "IN", "OUT"}, in: "MULTI.pdf", kind: "pdf"},
		{name: "viewerpref-set", execs: []string{"SetViewerPreferences"}, args: []string{"viewerpref", "set", "IN", "vp.json", "OUT"}, in: "MULTI.pdf", kind: "pdf", aux: map[string]string{"vp.json": viewerPrefJSON}},
		{name: "viewerpref-reset", execs: []string{"ResetViewerPreferences"}, args: []string{"viewerpref", "reset", "IN", "OUT"}, in: "MULTI.pdf", kind: "pdf"},
		{name: "zoom", execs: []string{"Zoom"}, args: []string{"zoom", "--", "factor:0.5", "IN", "OUT"}, in: "MULTI.pdf", kind: "pdf"},
		{name: "resize", execs: []string{"Resize"}, args: []string{"resize", "--", "scale:0.5", "IN", "OUT"}, in: "MULTI.pdf", kind: "pdf"},
		{name: "crop", execs: []string{"Crop"}, args: []string{"crop", "--", "[0 0 100 100]", "IN", "OUT"}, in: "MULTI.pdf", kind: "pdf"},
		{name: "boxes-add", execs: []string{"AddBoxes"}, args: []string{"boxes", "add", "--", "crop:[0 0 100 100]", "IN", "OUT"}, in: "MULTI.pdf", kind: "pdf"},
		{name: "boxes-remove", execs: []string{"RemoveBoxes"}, args: []string{"boxes", "remove", "--", "crop", "IN", "OUT"}, in: "MULTI.pdf", kind: "pdf"},
		{name: "stamp-add", execs: []string{"AddWatermarks"}, args: []string{"stamp", "add", "-m", "text", "--", "hello", "rot:0", "IN", "OUT"}, in: "MULTI.pdf", kind: "pdf", quick: q},
		{name: "nup", execs: []string{"NUp"}, args: []string{"nup", "--", "form:A4", "OUT", "4", "IN"}, in: "MULTI.pdf", kind: "pdf", noInOnly: true, quick: q},
		{name: "grid", execs: []string{"Grid"}, args: []string{"grid", "--", "form:A4", "OUT", "1", "2", "IN"}, in: "MULTI.pdf", kind: "pdf", noInOnly: true},
		{name: "booklet", execs: []string{"Booklet"}, args: []string{"booklet", "--", "form:A4", "OUT", "4", "IN"}, in: "MULTI.pdf", kind: "pdf", noInOnly: true},
		{name: "pages-remove", execs: []string{"RemovePages"}, args: []string{"pages", "remove", "-p", "1", "IN", "OUT"}, in: "MULTI.pdf", kind: "pdf"},
		{name: "pages-insert", execs: []string{"InsertPages"}, args: []string{"pages", "insert", "-p", "1", "IN", "OUT"}, in: "MULTI.pdf", kind: "pdf"},
		{name: "keywords-add", execs: []string{"AddKeywords", "runKeywordStreamOperation"}, args: []string{"keywords", "add", "IN", "OUT", "kw1", "kw2"}, in: "MULTI.pdf", kind: "pdf", quick: q},
		{name: "keywords-remove", execs: []string{"RemoveKeywords"}, args: []string{"keywords", "remove", "IN", "OUT"}, in: "KW.pdf", kind: "pdf"},
		{name: "properties-add", execs: []string{"AddProperties", "runPropertyStreamOperation"}, args: []string{"properties", "add", "IN", "OUT", "name = value"}, in: "MULTI.pdf", kind: "pdf", noInOnly: true},
		{name: "properties-remove", execs: []string{"RemoveProperties"}, args: []string{"properties", "remove", "IN", "OUT"}, in: "PROP.pdf", kind: "pdf", noInOnly: true},
		{name: "annotations-remove", execs: []string{"RemoveAnnotations"}, args: []string{"annotations", "remove", "IN", "OUT"}, in: "annotTest.pdf", kind: "pdf"},
		{name: "bookmarks-import", execs: []string{"ImportBookmarks"}, args: []string{"bookmarks", "import", "IN", "bm.json", "OUT"}, in: "MULTI.pdf", kind: "pdf", aux: map[string]string{"bm.json": samplesJSONBookmarks}},
		{name: "bookmarks-remove", execs: []string{"RemoveBookmarks"}, args: []string{"bookmarks", "remove", "IN", "OUT"}, in: "BM.pdf", kind: "pdf"},
		{name: "attachments-add", execs: []string{"AddAttachments"}, args: []string{"attachments", "add", "IN", "att.txt"}, in: "MULTI.pdf", kind: "pdfi", aux: map[string]string{"att.txt": "attachment"}},
		{name: "attachments-remove", execs: []string{"RemoveAttachments"}, args: []string{"attachments", "remove", "IN"}, in: "ATT.pdf", kind: "pdfi"},
		{name: "permissions-set", execs: []string{"SetPermissions"}, args: []string{"permissions", "set", "--perm", "all", "--upw", "u1", "--opw", "o1", "IN", "OUT"}, in: "ENC.pdf", kind: "pdf", upw: "u1", opw: "o1"},
		{name: "decrypt", execs: []string{"Decrypt"}, args: []string{"decrypt", "--upw", "u1", "--opw", "o1", "IN", "OUT"}, in: "ENC.pdf", kind: "pdf", quick: q},
		{name: "changeupw", execs: []string{"ChangeUserPassword"}, args: []string{"changeupw", "--opw", "o1", "IN", "u1", "u2", "OUT"}, in: "ENC.pdf", kind: "pdf", upw: "u2", opw: "o1"},
		{name: "changeopw", execs: []string{"ChangeOwnerPassword"}, args: []string{"changeopw", "--upw", "u1", "IN", "o1", "o2", "OUT"}, in: "ENC.pdf", kind: "pdf", upw: "u1", opw: "o2"},
		{name: "form-reset", execs: []string{"formPDFFileCommand"}, args: []string{"form", "reset", "IN", "OUT"}, in: "samples:form/demo/english.pdf", kind: "pdf"},
		{name: "form-lock", execs: []string{"formPDFFileCommand"}, args: []string{"form", "lock", "IN", "OUT"}, in: "samples:form/demo/english.pdf", kind: "pdf"},
		{name: "merge", execs: []string{"MergeCreate", "mergeCreateRaw", "mergeReader"}, args: []string{"merge", "OUT", "IN", "second.pdf"}, in: "MULTI.pdf", kind: "pdf", aux: map[string]string{"second.pdf": "@test.pdf"}, quick: q, noInOnly: true, knownClass: "merge-stdin-ignores-bookmarks"},
		{name: "merge-nobookmarks", execs: []string{"MergeCreate", "mergeCreateRaw", "mergeReader"}, args: []string{"merge", "--bookmarks=false", "OUT", "IN", "second.pdf"}, in: "MULTI.pdf", kind: "pdf", aux: map[string]string{"second.pdf": "@test.pdf"}, quick: q, noInOnly: true},
		{name: "extract-page-stdout", execs: []string{"extractPageToStdout", "ExtractPages"}, args: []string{"extract", "-m", "page", "-p", "2", "IN", "OUTDIR1"}, in: "MULTI.pdf", kind: "pdf1"},

		// text to stdout, input from stdin
		{name: "info", execs: []string{"listInfoInput", "ListInfo"}, args: []string{"info", "IN"}, in: "go.pdf", kind: "text", quick: q},
		{name: "validate", execs: []string{"validateInput", "Validate"}, args: []string{"validate", "IN"}, in: "MULTI.pdf", kind: "text", quick: q},
		{name: "annotations-list", execs: []string{"ListAnnotations"}, args: []string{"annotations", "list", "IN"}, in: "annotTest.pdf", kind: "text"},
		{name: "attachments-list", execs: []string{"ListAttachments"}, args: []string{"attachments", "list", "IN"}, in: "ATT.pdf", kind: "text"},
		{name: "bookmarks-list", execs: []string{"ListBookmarks"}, args: []string{"bookmarks", "list", "IN"}, in: "BM.pdf", kind: "text"},
		{name: "boxes-list", execs: []string{"ListBoxes"}, args: []string{"boxes", "list", "IN"}, in: "MULTI.pdf", kind: "text"},
		{name: "form-list", execs: []string{"ListFormFields"}, args: []string{"form", "list", "IN"}, in: "samples:form/demo/english.pdf", kind: "text"},
		{name: "images-list", execs: []string{"listImagesFile", "ListImagesFile"}, args: []string{"images", "list", "IN"}, in: "go.pdf", kind: "text"},
		{name: "keywords-list", execs: []string{"ListKeywords"}, args: []string{"keywords", "list", "IN"}, in: "KW.pdf", kind: "text"},
		{name: "properties-list", execs: []string{"ListProperties"}, args: []string{"properties", "list", "IN"}, in: "PROP.pdf", kind: "text"},
		{name: "pagelayout-list", execs: []string{"ListPageLayout"}, args: []string{"pagelayout", "list", "IN"}, in: "MULTI.pdf", kind: "text"},
		{name: "pagemode-list", execs: []string{"ListPageMode"}, args: []string{"pagemode", "list", "IN"}, in: "MULTI.pdf", kind: "text"},
		{name: "viewerpref-list", execs: []string{"ListViewerPreferences"}, args: []string{"viewerpref", "list", "IN"}, in: "MULTI.pdf", kind: "text"},
		{name: "permissions-list", execs: []string{"ListPermissions"}, args: []string{"permissions", "list", "--upw", "u1", "IN"}, in: "ENC.pdf", kind: "text", quick: q},
		{name: "signatures-validate", execs: []string{"validateSignatures"}, args: []string{"signatures", "validate", "IN"}, in: "MULTI.pdf", kind: "text", expectFail: true},

		// JSON on stdout
		{name: "info-json", execs: []string{"handleInfoCommand"}, args: []string{"info", "--json", "IN"}, in: "go.pdf", kind: "json", quick: q},
		{name: "annotations-list-json", execs: []string{"handleListAnnotationsCommand", "listAnnotations"}, args: []string{"annotations", "list", "--json", "IN"}, in: "annotTest.pdf", kind: "json", quick: q},
		{name: "form-list-json", execs: []string{"handleListFormFieldsCommand", "listFormFieldsJSON"}, args: []string{"form", "list", "--json", "IN"}, in: "samples:form/demo/english.pdf", kind: "json", quick: q},
		{name: "viewerpref-list-json", execs: []string{"handleListViewerPreferencesCommand"}, args: []string{"viewerpref", "list", "--json", "--all", "IN"}, in: "MULTI.pdf", kind: "json", quick: q},
		{name: "certificates-list-json", execs: []string{"handleListCertificatesCommand"}, args: []string{"certificates", "list", "--json"}, in: "", kind: "json", quick: q},
		{name: "bookmarks-export", execs: []string{"ExportBookmarks"}, args: []string{"bookmarks", "export", "IN", "OUTJSON"}, in: "BM.pdf", kind: "jsonout", quick: q},
		{name: "form-export", execs: []string{"ExportFormFields"}, args: []string{"form", "export", "IN", "OUTJSON"}, in: "samples:form/demo/english.pdf", kind: "jsonfile", quick: q},

		// directory outputs with stdin input
		{name: "split", execs: []string{"Split"}, args: []string{"split", "IN", "OUTDIR", "2"}, in: "MULTI.pdf", kind: "dir"},
		{name: "split-page", execs: []string{"SplitByPageNr"}, args: []string{"split", "-m", "page", "IN", "OUTDIR", "2", "4"}, in: "MULTI.pdf", kind: "dir"},
		{name: "extract-pages", execs: []string{"ExtractPages"}, args: []string{"extract", "-m", "page", "-p", "1-2", "IN", "OUTDIR"}, in: "MULTI.pdf", kind: "dir"},
		{name: "extract-content", execs: []string{"ExtractContent"}, args: []string{"extract", "-m", "content", "-p", "1", "IN", "OUTDIR"}, in: "MULTI.pdf", kind: "dir"},
		{name: "extract-images", execs: []string{"ExtractImages"}, args: []string{"extract", "-m", "image", "IN", "OUTDIR"}, in: "go.pdf", kind: "dir"},
		{name: "extract-fonts", execs: []string{"ExtractFonts"}, args: []string{"extract", "-m", "font", "IN", "OUTDIR"}, in: "go.pdf", kind: "dir"},
		{name: "extract-meta", execs: []string{"ExtractMetadata"}, args: []string{"extract", "-m", "meta", "IN", "OUTDIR"}, in: "MULTI.pdf", kind: "dir"},
		{name: "attachments-extract", execs: []string{"ExtractAttachments"}, args: []string{"attachments", "extract", "IN", "OUTDIR"}, in: "ATT.pdf", kind: "dir"},
		{name: "ndown", execs: []string{"NDown"}, args: []string{"ndown", "2", "IN", "OUTDIR"}, in: "test.pdf", kind: "dir"},
		{name: "poster", execs: []string{"Poster"}, args: []string{"poster", "--", "form:A5", "IN", "OUTDIR"}, in: "test.pdf", kind: "dir"},
		{name: "cut", execs: []string{"Cut"}, args: []string{"cut", "--", "hor:.5", "IN", "OUTDIR"}, in: "test.pdf", kind: "dir"},
	}
}

// functions of the generated table that look at "-" but are not driven through the binary here
var notExercised = map[string]string{
	"Create":                       "needs a pdfcpu JSON page description; covered by the K stream of part A through the shared helper only",
	"ImportImages":                 "image import from stdin: needs image fixtures; static row check only",
	"importImageReader":            "see ImportImages",
	"hasStdinImage":                "see ImportImages",
	"MergeAppend":                  "refuses \"-\" (nreject = ndash)",
	"MergeCreateZip":               "zip merge to stdout: static row check only",
	"MultiFillFormFields":          "multifill needs CSV/JSON form data fixtures",
	"multiFillFormFieldsToStdout":  "see MultiFillFormFields",
	"multiFillFormInputFile":       "see MultiFillFormFields",
	"multiFillFormOutputFile":      "see MultiFillFormFields",
	"formTemplateFileFromStdin":    "see MultiFillFormFields",
	"validateMultiFillFormCommand": "see MultiFillFormFields",
	"formPDFWithData":              "form fill needs JSON form data fixtures",
	"updateImagesInOut":            "images update needs image fixtures",
	"RemoveWatermarks":             "needs a stamped input; AddWatermarks drives the same helper",
	"RemoveSignatures":             "no signed sample document in the tree",
	"ListFormFieldsFile":           "file-only variant",
	"ListPermissionsFile":          "file-only variant",
	"formFieldSource":              "label only",
	"mergeStdinCount":              "counting only",
	"removeStreamOutput":           "part A",
	"streamInOutForOperation":      "part A",
	"readSeekerFromStdin":          "part A",
	"runContentStreamOperation":    "wrapper, driven by encrypt/decrypt",
	"validateListImagesInputs":     "validation only",
	"validatePropertyCommand":      "validation only",
	"validationInputLabel":         "label only",
}

type table struct {
	Cli []struct {
		Name        string `json:"name"`
		NDash       int    `json:"ndash"`
		ReachStream bool   `json:"reach_stream"`
		ReachStdin  bool   `json:"reach_stdin"`
		Stdout      bool   `json:"stdout"`
	} `json:"cli"`
	JSON []struct {
		Handler string `json:"handler"`
		Exec    string `json:"exec"`
	} `json:"json"`
}

type outcome struct {
	rec      recipe
	variant  string
	fails    [][3]string // class, input, detail
	oks      int
	cases    [][3]string // fn, args(joined by \t), impl
	counters []string
}

func (o *outcome) fail(class, detail string) {
	o.fails = append(o.fails, [3]string{class, o.rec.name + "/" + o.variant + ": pdfcpu " + strings.Join(o.rec.args, " "), trunc(detail, 600)})
}
func (o *outcome) ok() { o.oks++ }

func subst(args []string, in, out, outdir, outjson string) []string {
	var r []string
	for _, a := range args {
		switch a {
		case "IN":
			r = append(r, in)
		case "OUT":
			if out != "" {
				r = append(r, out)
			}
		case "OUTDIR", "OUTDIR1":
			r = append(r, outdir)
		case "OUTJSON":
			if outjson != "" {
				r = append(r, outjson)
			}
		default:
			r = append(r, a)
		}
	}
	return r
}

func prepDir(dir string, rec recipe, sample []byte) {
	must(os.MkdirAll(dir, 0o755))
	if rec.in != "" {
		must(os.WriteFile(filepath.Join(dir, "in.pdf"), sample, 0o644))
	}
	for n, c := range rec.aux {
		b := []byte(c)
		if strings.HasPrefix(c, "@") {
			b = fixture(c[1:])
		}
		must(os.WriteFile(filepath.Join(dir, n), b, 0o644))
	}
}

var (
	fixMu    sync.Mutex
	fixtures = map[string][]byte{}
)

func fixture(name string) []byte {
	fixMu.Lock()
	defer fixMu.Unlock()
	if b, ok := fixtures[name]; ok {
		return b
	}
	path := filepath.Join(repo, "pkg", "testdata", name)
	if strings.HasPrefix(name, "samples:") {
		path = filepath.Join(repo, "pkg", "samples", name[len("samples:"):])
	}
	b, err := os.ReadFile(path)
	must(err)
	fixtures[name] = b
	return b
}

// derived fixtures are produced once with the binary itself (file interface only)
func makeDerived(cfg string) error {
	d := filepath.Join(scratch, "derive")
	must(os.MkdirAll(d, 0o755))
	must(os.WriteFile(filepath.Join(d, "go.pdf"), fixture("go.pdf"), 0o644))
	must(os.WriteFile(filepath.Join(d, "att.txt"), []byte("attachment"), 0o644))
	must(os.WriteFile(filepath.Join(d, "bm.json"), []byte(samplesJSONBookmarks), 0o644))
	must(os.WriteFile(filepath.Join(d, "test.pdf"), fixture("test.pdf"), 0o644))
	var baseDoc []byte
	steps := [][]string{
		{"merge", "--bookmarks=false", "MULTI.pdf", "test.pdf", "test.pdf", "test.pdf", "test.pdf"},
		{"merge", "--bookmarks=false", "SEL0.pdf", "test.pdf", "test.pdf", "test.pdf", "test.pdf", "test.pdf", "test.pdf"},
		{"stamp", "add", "-m", "text", "--", "page %p", "rot:0", "SEL0.pdf", "SEL.pdf"},
		{"properties", "add", "go.pdf", "PROP.pdf", "alpha = beta"},
		{"encrypt", "--upw", "u1", "--opw", "o1", "go.pdf", "ENC.pdf"},
		{"attachments", "add", "go.pdf", "att.txt"},
		{"bookmarks", "import", "go.pdf", "bm.json", "BM.pdf"},
		{"keywords", "add", "go.pdf", "KW.pdf", "alpha", "beta"},
		{"viewerpref", "set", "go.pdf", "vp.json", "VP.pdf"},
	}
	must(os.WriteFile(filepath.Join(d, "vp.json"), []byte(viewerPrefJSON), 0o644))
	for _, s := range steps {
		rr := runBin(cfg, d, nil, s...)
		if rr.exit != 0 {
			return fmt.Errorf("fixture step %v: exit %d: %s", s, rr.exit, rr.stderr)
		}
		if s[0] == "merge" && s[2] == "MULTI.pdf" {
			b, err := os.ReadFile(filepath.Join(d, "MULTI.pdf"))
			must(err)
			baseDoc = b
			must(os.WriteFile(filepath.Join(d, "go.pdf"), baseDoc, 0o644))
		}
		if s[0] == "attachments" {
			b, err := os.ReadFile(filepath.Join(d, "go.pdf"))
			must(err)
			fixMu.Lock()
			fixtures["ATT.pdf"] = b
			fixMu.Unlock()
			must(os.WriteFile(filepath.Join(d, "go.pdf"), baseDoc, 0o644))
		}
	}
	// reference: every page of SEL.pdf extracted on its own; the pages must be distinguishable
	must(os.MkdirAll(filepath.Join(d, "ref"), 0o755))
	if rr := runBin(cfg, d, nil, "extract", "-m", "page", "SEL.pdf", "ref"); rr.exit != 0 {
		return fmt.Errorf("reference extraction: exit %d: %s", rr.exit, rr.stderr)
	}
	selRef = map[string]int{}
	for p := 1; p <= selPages; p++ {
		b, err := os.ReadFile(filepath.Join(d, "ref", fmt.Sprintf("SEL_page_%d.pdf", p)))
		if err != nil {
			return err
		}
		n, err := normPDF(b, "", "")
		if err != nil {
			return err
		}
		if _, dup := selRef[n]; dup {
			return fmt.Errorf("pages of the selection fixture are not distinguishable")
		}
		selRef[n] = p
	}
	for _, n := range []string{"ENC.pdf", "BM.pdf", "KW.pdf", "MULTI.pdf", "PROP.pdf", "SEL.pdf", "VP.pdf"} {
		b, err := os.ReadFile(filepath.Join(d, n))
		if err != nil {
			return err
		}
		fixMu.Lock()
		fixtures[n] = b
		fixMu.Unlock()
	}
	return nil
}

func textNorm(b []byte, inPath string) string {
	s := string(b)
	s = strings.ReplaceAll(s, inPath, "@")
	lines := strings.Split(s, "\n")
	for i, l := range lines {
		t := strings.TrimSpace(l)
		if t == "stdin:" || t == "-:" || t == "in.pdf:" {
			lines[i] = "@:"
		}
		lines[i] = strings.ReplaceAll(lines[i], "stdin", "@")
		if strings.HasSuffix(strings.TrimSpace(lines[i]), "Source: -") {
			lines[i] = strings.Replace(lines[i], "Source: -", "Source: @", 1)
		}
	}
	return strings.Join(lines, "\n")
}

func looksLikeLog(b []byte) string {
	for _, m := range []string{"writing ", "optimizing", "validating", "DEBUG:", " INFO:", "STATS:", "TRACE:", " READ:", "VALID:", "  OPT:", "WRITE:", "installing user font", "pdfcpu: "} {
		if bytes.Contains(b, []byte(m)) {
			return m
		}
	}
	return ""
}

func runRecipe(rec recipe, idx int, cfg string, thorough bool) []*outcome {
	var outs []*outcome
	var sample []byte
	if rec.in != "" {
		sample = fixture(rec.in)
	}
	base := filepath.Join(scratch, fmt.Sprintf("b%d", idx))
	newOutcome := func(v string) *outcome { o := &outcome{rec: rec, variant: v}; outs = append(outs, o); return o }

	full := thorough || rec.name == "optimize" || rec.name == "encrypt" || rec.name == "merge"
	var plainFileNorm string
	verbs := [][]string{nil}
	if rec.quick || thorough {
		verbs = append(verbs, []string{"-vv"})
	}
	if thorough {
		verbs = append(verbs, []string{"-v"})
	}
	for vi, vflags := range verbs {
		vname := "plain"
		if vflags != nil {
			vname = vflags[0]
		}
		dir := filepath.Join(base, fmt.Sprintf("v%d", vi))
		prepDir(dir, rec, sample)
		o := newOutcome(vname)
		with := func(a []string) []string { return append(append([]string{}, vflags...), a...) }
		switch rec.kind {
		case "pdf", "pdf1", "pdfi":
			var fileDoc []byte
			if vflags != nil && plainFileNorm != "" && !thorough {
				// quick tier: verbose runs only repeat the stdin->stdout variant
			} else if rec.kind == "pdfi" {
				fr := runBin(cfg, dir, nil, with(subst(rec.args, "in.pdf", "", "", ""))...)
				o.cases = append(o.cases, [3]string{"exit", "true", fmt.Sprintf("%x", fr.exit)})
				if fr.exit != 0 {
					o.fail("recipe-file-variant-fails:"+rec.name, fmt.Sprintf("exit %d stderr %s", fr.exit, fr.stderr))
					continue
				}
				fileDoc, _ = os.ReadFile(filepath.Join(dir, "in.pdf"))
			} else if rec.kind == "pdf" {
				fr := runBin(cfg, dir, nil, with(subst(rec.args, "in.pdf", "f.pdf", "", ""))...)
				o.cases = append(o.cases, [3]string{"exit", "true", fmt.Sprintf("%x", fr.exit)})
				if fr.exit != 0 {
					o.fail("recipe-file-variant-fails:"+rec.name, fmt.Sprintf("exit %d stderr %s", fr.exit, fr.stderr))
					continue
				}
				if len(fr.stdout) != 0 && bytes.HasPrefix(fr.stdout, []byte("%PDF")) {
					o.fail("file-variant-writes-document-to-stdout", string(fr.stdout[:20]))
				}
				o.cases = append(o.cases, [3]string{"sink", "2\t2", "1"})
				b, err := os.ReadFile(filepath.Join(dir, "f.pdf"))
				if err != nil {
					o.fail("file-variant-no-output:"+rec.name, err.Error())
					continue
				}
				fileDoc = b
			} else {
				od := filepath.Join(dir, "fd")
				must(os.MkdirAll(od, 0o755))
				fr := runBin(cfg, dir, nil, with(subst(rec.args, "in.pdf", "", "fd", ""))...)
				ents, _ := os.ReadDir(od)
				if fr.exit != 0 || len(ents) != 1 {
					o.fail("recipe-file-variant-fails:"+rec.name, fmt.Sprintf("exit %d files %d stderr %s", fr.exit, len(ents), fr.stderr))
					continue
				}
				fileDoc, _ = os.ReadFile(filepath.Join(od, ents[0].Name()))
			}
			var fn string
			var err error
			if fileDoc == nil && plainFileNorm != "" {
				fn = plainFileNorm
			} else {
				fn, err = normPDF(fileDoc, rec.upw, rec.opw)
				if err != nil {
					o.fail("file-variant-output-unreadable:"+rec.name, err.Error())
					continue
				}
				if vflags == nil {
					plainFileNorm = fn
				}
			}
			reduced := fileDoc == nil
			type sv struct {
				name    string
				in, out string
				i, o    string
			}
			svs := []sv{{"in-out", "-", "-", "1", "1"}}
			if rec.kind == "pdfi" {
				svs = []sv{{"in-only", "-", "", "1", "0"}}
			}
			if rec.kind == "pdf" {
				if !rec.noInOnly {
					svs = append(svs, sv{"in-only", "-", "", "1", "0"})
				}
				if full {
					svs = append(svs, sv{"out-only", "in.pdf", "-", "2", "1"}, sv{"in-file", "-", "s.pdf", "1", "2"})
				}
			}
			if reduced {
				svs = svs[:1]
			}
			for _, v := range svs {
				var sr runRes
				if rec.kind == "pdf1" {
					sr = runBin(cfg, dir, sample, with(subst(rec.args, v.in, "", "-", ""))...)
				} else {
					sr = runBin(cfg, dir, sample, with(subst(rec.args, v.in, v.out, "", ""))...)
				}
				o.cases = append(o.cases, [3]string{"exit", "true", fmt.Sprintf("%x", sr.exit)})
				if sr.exit != 0 {
					o.fail("stream-variant-fails:"+rec.name+":"+v.name, fmt.Sprintf("exit %d stderr %s", sr.exit, sr.stderr))
					continue
				}
				doc := sr.stdout
				toStdout := v.out == "-" || (v.in == "-" && v.out == "") || rec.kind == "pdf1"
				if !toStdout {
					if len(sr.stdout) != 0 {
						o.fail("stdout-not-empty-for-file-sink:"+rec.name, trunc(string(sr.stdout), 200))
					}
					doc, err = os.ReadFile(filepath.Join(dir, v.out))
					if err != nil {
						o.fail("stream-variant-no-output-file:"+rec.name, err.Error())
						continue
					}
					o.cases = append(o.cases, [3]string{"sink", v.i + "\t" + v.o, "1"})
				} else {
					sinkObs := "1"
					if bytes.HasPrefix(sr.stdout, []byte("%PDF-")) {
						sinkObs = "0"
					}
					o.cases = append(o.cases, [3]string{"sink", v.i + "\t" + v.o, sinkObs})
					if !bytes.HasPrefix(doc, []byte("%PDF-")) {
						o.fail("stdout-does-not-start-with-document:"+rec.name, trunc(string(doc), 200))
						continue
					}
					if !bytes.HasSuffix(bytes.TrimRight(doc, "\r\n"), []byte("%%EOF")) {
						tail := doc
						if len(tail) > 200 {
							tail = tail[len(tail)-200:]
						}
						o.fail("text-after-document-on-stdout:"+rec.name, string(tail))
						continue
					}
				}
				if ents, _ := os.ReadDir(filepath.Join(dir, "tmp")); len(ents) != 0 {
					o.fail("temporary-stdin-copy-left-behind:"+rec.name, ents[0].Name())
				}
				sn, err := normPDF(doc, rec.upw, rec.opw)
				if err != nil {
					o.fail("stream-output-unreadable:"+rec.name+":"+v.name, err.Error())
					continue
				}
				if sn != fn {
					if rec.knownClass != "" && v.in == "-" {
						o.fail(rec.knownClass, v.name+": "+firstDiff(fn, sn))
					} else {
						o.fail("stream-document-differs-from-file-document:"+rec.name+":"+v.name, firstDiff(fn, sn))
					}
					continue
				}
				o.ok()
			}
		case "text":
			fr := runBin(cfg, dir, nil, with(subst(rec.args, "in.pdf", "", "", ""))...)
			sr := runBin(cfg, dir, sample, with(subst(rec.args, "-", "", "", ""))...)
			want := "true"
			if rec.expectFail {
				want = "false"
			}
			o.cases = append(o.cases, [3]string{"exit", want, fmt.Sprintf("%x", fr.exit)}, [3]string{"exit", want, fmt.Sprintf("%x", sr.exit)})
			if fr.exit != sr.exit {
				o.fail("text-exit-status-differs:"+rec.name, fmt.Sprintf("file %d (%s) stdin %d (%s)", fr.exit, trunc(string(fr.stderr), 200), sr.exit, trunc(string(sr.stderr), 200)))
				continue
			}
			if vflags == nil && textNorm(fr.stdout, "in.pdf") != textNorm(sr.stdout, "in.pdf") {
				o.fail("text-output-differs:"+rec.name, firstDiff(textNorm(fr.stdout, "in.pdf"), textNorm(sr.stdout, "in.pdf")))
				continue
			}
			if m := looksLikeLog(sr.stdout); m != "" && vflags != nil && !bytes.Contains(fr.stdout, []byte(m)) {
				o.fail("log-text-on-stdout:"+rec.name, m)
				continue
			}
			if ents, _ := os.ReadDir(filepath.Join(dir, "tmp")); len(ents) != 0 {
				o.fail("temporary-stdin-copy-left-behind:"+rec.name, ents[0].Name())
			}
			o.ok()
		case "json", "jsonout", "jsonfile":
			var fr, sr runRes
			if rec.kind == "jsonfile" {
				fr = runBin(cfg, dir, nil, with(subst(rec.args, "in.pdf", "", "", "f.json"))...)
				sr = runBin(cfg, dir, sample, with(subst(rec.args, "-", "", "", "s.json"))...)
				if len(fr.stdout) != 0 || len(sr.stdout) != 0 {
					o.fail("stdout-not-empty-for-file-sink:"+rec.name, trunc(string(fr.stdout)+string(sr.stdout), 200))
				}
				fr.stdout, _ = os.ReadFile(filepath.Join(dir, "f.json"))
				sr.stdout, _ = os.ReadFile(filepath.Join(dir, "s.json"))
			} else if rec.kind == "json" {
				if vflags != nil && !thorough && rec.in != "" {
					fr = runBin(cfg, dir, sample, with(subst(rec.args, "-", "", "", ""))...)
				} else {
					fr = runBin(cfg, dir, nil, with(subst(rec.args, "in.pdf", "", "", ""))...)
				}
				if rec.in != "" {
					sr = runBin(cfg, dir, sample, with(subst(rec.args, "-", "", "", ""))...)
				} else {
					sr = fr
				}
			} else {
				fr = runBin(cfg, dir, nil, with(subst(rec.args, "in.pdf", "", "", "f.json"))...)
				if fr.exit == 0 {
					b, err := os.ReadFile(filepath.Join(dir, "f.json"))
					if err != nil {
						o.fail("file-variant-no-output:"+rec.name, err.Error())
						continue
					}
					if len(fr.stdout) != 0 {
						o.fail("stdout-not-empty-for-file-sink:"+rec.name, trunc(string(fr.stdout), 200))
					}
					fr.stdout = b
				}
				sr = runBin(cfg, dir, sample, with(subst(rec.args, "-", "", "", "-"))...)
				// also: file in, "-" out
				hr := runBin(cfg, dir, nil, with(subst(rec.args, "in.pdf", "", "", "-"))...)
				if hr.exit == 0 {
					if _, err := oneJSON(hr.stdout); err != nil {
						o.fail("json-stdout-not-one-document:"+rec.name+":out-only", err.Error())
					}
				} else {
					o.fail("stream-variant-fails:"+rec.name+":out-only", string(hr.stderr))
				}
			}
			o.cases = append(o.cases, [3]string{"exit", "true", fmt.Sprintf("%x", fr.exit)}, [3]string{"exit", "true", fmt.Sprintf("%x", sr.exit)})
			if fr.exit != 0 || sr.exit != 0 {
				o.fail("json-command-fails:"+rec.name, fmt.Sprintf("file %d (%s) stdin %d (%s)", fr.exit, trunc(string(fr.stderr), 200), sr.exit, trunc(string(sr.stderr), 200)))
				continue
			}
			fv, err := oneJSON(fr.stdout)
			if err != nil {
				o.fail("json-stdout-not-one-document:"+rec.name+":file", err.Error()+" | "+trunc(string(fr.stdout), 120))
				continue
			}
			sv, err := oneJSON(sr.stdout)
			if err != nil {
				o.fail("json-stdout-not-one-document:"+rec.name+":stdin", err.Error()+" | "+trunc(string(sr.stdout), 120))
				continue
			}
			fb, _ := json.Marshal(scrubJSON(fv, "in.pdf"))
			sb, _ := json.Marshal(scrubJSON(sv, "in.pdf"))
			if !bytes.Equal(fb, sb) {
				o.fail("json-differs-between-file-and-stdin:"+rec.name, firstDiff(string(fb), string(sb)))
				continue
			}
			if ents, _ := os.ReadDir(filepath.Join(dir, "tmp")); len(ents) != 0 {
				o.fail("temporary-stdin-copy-left-behind:"+rec.name, ents[0].Name())
			}
			o.ok()
		case "dir":
			if vflags != nil {
				continue
			}
			fd, sd := filepath.Join(dir, "fd"), filepath.Join(dir, "sd")
			must(os.MkdirAll(fd, 0o755))
			must(os.MkdirAll(sd, 0o755))
			fr := runBin(cfg, dir, nil, subst(rec.args, "in.pdf", "", "fd", "")...)
			sr := runBin(cfg, dir, sample, subst(rec.args, "-", "", "sd", "")...)
			o.cases = append(o.cases, [3]string{"exit", "true", fmt.Sprintf("%x", fr.exit)}, [3]string{"exit", "true", fmt.Sprintf("%x", sr.exit)})
			if fr.exit != sr.exit {
				o.fail("dir-exit-status-differs:"+rec.name, fmt.Sprintf("file %d (%s) stdin %d (%s)", fr.exit, trunc(string(fr.stderr), 200), sr.exit, trunc(string(sr.stderr), 200)))
				continue
			}
			if len(sr.stdout) != 0 && looksLikeLog(sr.stdout) != "" && !bytes.Equal(fr.stdout, sr.stdout) && len(fr.stdout) == 0 {
				o.fail("log-text-on-stdout:"+rec.name, trunc(string(sr.stdout), 200))
			}
			fe, _ := os.ReadDir(fd)
			se, _ := os.ReadDir(sd)
			if len(fe) != len(se) {
				o.fail("dir-output-count-differs:"+rec.name, fmt.Sprintf("file %d stdin %d", len(fe), len(se)))
				continue
			}
			bad := false
			for i := range fe {
				a, _ := os.ReadFile(filepath.Join(fd, fe[i].Name()))
				b, _ := os.ReadFile(filepath.Join(sd, se[i].Name()))
				if bytes.HasPrefix(a, []byte("%PDF-")) {
					an, e1 := normPDF(a, rec.upw, rec.opw)
					bn, e2 := normPDF(b, rec.upw, rec.opw)
					if e1 != nil || e2 != nil || an != bn {
						o.fail("dir-document-differs:"+rec.name, fe[i].Name()+" vs "+se[i].Name()+": "+firstDiff(an, bn))
						bad = true
						break
					}
				} else if !bytes.Equal(a, b) {
					o.fail("dir-file-differs:"+rec.name, fe[i].Name()+" vs "+se[i].Name())
					bad = true
					break
				}
			}
			if ents, _ := os.ReadDir(filepath.Join(dir, "tmp")); len(ents) != 0 {
				o.fail("temporary-stdin-copy-left-behind:"+rec.name, ents[0].Name())
			}
			if !bad {
				o.ok()
			}
		}
	}

	// invalid input through stdin: non-zero exit, empty stdout, message on stderr
	if rec.in != "" && rec.kind != "dir" {
		bads := map[string][]byte{"garbage": []byte("this is not a PDF file at all\n")}
		if full || rec.name == "info-json" {
			bads["empty"] = []byte{}
		}
		if thorough {
			bads["truncated"] = sample[:len(sample)/3]
		}
		names := make([]string, 0, len(bads))
		for k := range bads {
			names = append(names, k)
		}
		sort.Strings(names)
		for _, bn := range names {
			dir := filepath.Join(base, "bad-"+bn)
			prepDir(dir, rec, sample)
			o := newOutcome("invalid-" + bn)
			var a []string
			switch rec.kind {
			case "pdf":
				a = subst(rec.args, "-", "-", "", "")
			case "pdf1":
				a = subst(rec.args, "-", "", "-", "")
			case "pdfi":
				a = subst(rec.args, "-", "", "", "")
			case "jsonout":
				a = subst(rec.args, "-", "", "", "-")
			case "jsonfile":
				a = subst(rec.args, "-", "", "", "bad.json")
			default:
				a = subst(rec.args, "-", "", "", "")
			}
			sr := runBin(cfg, dir, bads[bn], a...)
			o.cases = append(o.cases, [3]string{"exit", "false", fmt.Sprintf("%x", sr.exit)})
			switch {
			case sr.exit == 0:
				o.fail("invalid-input-exit-zero:"+rec.name+":"+bn, trunc(string(sr.stderr), 200))
			case sr.exit != 1:
				o.fail("invalid-input-exit-not-1:"+rec.name+":"+bn, fmt.Sprintf("exit %d %s", sr.exit, trunc(string(sr.stderr), 300)))
			case len(sr.stdout) != 0:
				o.fail("invalid-input-stdout-not-empty:"+rec.name+":"+bn, trunc(string(sr.stdout), 200))
			case len(bytes.TrimSpace(sr.stderr)) == 0:
				o.fail("invalid-input-no-error-message:"+rec.name+":"+bn, "")
			case bytes.Contains(sr.stderr, []byte("goroutine ")) || bytes.Contains(sr.stderr, []byte("panic:")):
				o.fail("invalid-input-panic:"+rec.name+":"+bn, trunc(string(sr.stderr), 300))
			default:
				o.ok()
			}
			if ents, _ := os.ReadDir(filepath.Join(dir, "tmp")); len(ents) != 0 {
				o.fail("temporary-stdin-copy-left-behind:"+rec.name, ents[0].Name())
			}
			// file sink: a failed command leaves no output file
			if rec.kind == "pdf" && bn == "garbage" {
				fr := runBin(cfg, dir, bads[bn], subst(rec.args, "-", "bad-out.pdf", "", "")...)
				o.cases = append(o.cases, [3]string{"exit", "false", fmt.Sprintf("%x", fr.exit)})
				if _, err := os.Stat(filepath.Join(dir, "bad-out.pdf")); err == nil {
					o.fail("failed-command-leaves-output-file:"+rec.name, "bad-out.pdf")
				} else if fr.exit == 0 {
					o.fail("invalid-input-exit-zero:"+rec.name+":file-sink", "")
				} else {
					o.ok()
				}
			}
		}
	}

	// fresh configuration directory
	if rec.quick && (rec.kind == "json" || rec.kind == "jsonout" || (rec.kind == "pdf" && !rec.noInOnly && full)) {
		dir := filepath.Join(base, "fresh")
		prepDir(dir, rec, sample)
		o := newOutcome("fresh-config")
		fresh := filepath.Join(dir, "home")
		must(os.MkdirAll(fresh, 0o755))
		var a []string
		switch rec.kind {
		case "pdf":
			a = subst(rec.args, "-", "-", "", "")
		case "jsonout":
			a = subst(rec.args, "-", "", "", "-")
		default:
			a = subst(rec.args, "-", "", "", "")
		}
		sr := runBin(fresh, dir, sample, a...)
		o.cases = append(o.cases, [3]string{"exit", "true", fmt.Sprintf("%x", sr.exit)})
		if sr.exit != 0 {
			o.fail("fresh-config-command-fails:"+rec.name, trunc(string(sr.stderr), 300))
		} else if rec.kind == "pdf" {
			if !bytes.HasPrefix(sr.stdout, []byte("%PDF-")) || !bytes.HasSuffix(bytes.TrimRight(sr.stdout, "\r\n"), []byte("%%EOF")) {
				o.fail("fresh-config-text-mixed-into-document:"+rec.name, trunc(string(sr.stdout), 200))
			} else if _, err := normPDF(sr.stdout, rec.upw, rec.opw); err != nil {
				o.fail("fresh-config-document-unreadable:"+rec.name, err.Error())
			} else {
				o.ok()
			}
		} else if _, err := oneJSON(sr.stdout); err != nil {
			o.fail("fresh-config-json-not-one-document:"+rec.name, err.Error()+" | "+trunc(string(sr.stdout), 160))
		} else {
			o.ok()
		}
		if _, err := os.Stat(filepath.Join(fresh, ".config", "pdfcpu", "config.yml")); err != nil {
			o.counters = append(o.counters, "B:fresh-config-dir-not-created")
		} else {
			o.counters = append(o.counters, "B:fresh-config-dir-created")
		}
	}
	os.RemoveAll(base)
	return outs
}

// ------------------------------------------------------------------ part C: several inputs

type multiCmd struct {
	name   string
	args   []string // flags + subcommand; the inputs are appended
	json   bool
	in     string // sample
	arrKey string // JSON: key of the array with one entry per input
	quick  bool
}

func multiCmds() []multiCmd {
	form := "samples:form/demo/english.pdf"
	return []multiCmd{
		{name: "info", args: []string{"info"}, in: "MULTI.pdf", quick: true},
		{name: "info-json", args: []string{"info", "--json"}, json: true, in: "MULTI.pdf", arrKey: "infos", quick: true},
		{name: "validate", args: []string{"validate"}, in: "MULTI.pdf"},
		{name: "form-list", args: []string{"form", "list"}, in: form},
		{name: "form-list-json", args: []string{"form", "list", "--json"}, json: true, in: form, arrKey: "forms"},
		{name: "images-list", args: []string{"images", "list"}, in: "MULTI.pdf"},
		{name: "permissions-list", args: []string{"permissions", "list"}, in: "MULTI.pdf"},
	}
}

// one (command, second input, position of "-") cell: file variant vs stream variant
func runMulti(mc multiCmd, idx int, cfg string) []*outcome {
	var outs []*outcome
	sample := fixture(mc.in)
	type scen struct {
		name  string
		other string // second input
		good  bool
	}
	scens := []scen{{"all-good", "good2.pdf", true}, {"one-unreadable", "bad.pdf", false}, {"one-missing", "missing.pdf", false}}
	for si, sc := range scens {
		for pos := 0; pos < 2; pos++ {
			rec := recipe{name: "multi-" + mc.name, args: append(append([]string{}, mc.args...), "<inputs>")}
			o := &outcome{rec: rec, variant: fmt.Sprintf("%s/stdin-at-%d", sc.name, pos)}
			outs = append(outs, o)
			dir := filepath.Join(scratch, fmt.Sprintf("c%d-%d-%d", idx, si, pos))
			must(os.MkdirAll(dir, 0o755))
			must(os.WriteFile(filepath.Join(dir, "in.pdf"), sample, 0o644))
			must(os.WriteFile(filepath.Join(dir, "good2.pdf"), sample, 0o644))
			must(os.WriteFile(filepath.Join(dir, "bad.pdf"), []byte("this is not a PDF file at all\n"), 0o644))
			fin, sin := []string{"in.pdf", sc.other}, []string{"-", sc.other}
			codes := "1,1"
			if !sc.good {
				codes = "1,0"
			}
			if pos == 1 {
				fin, sin = []string{sc.other, "in.pdf"}, []string{sc.other, "-"}
				if !sc.good {
					codes = "0,1"
				}
			}
			fr := runBin(cfg, dir, nil, append(append([]string{}, mc.args...), fin...)...)
			sr := runBin(cfg, dir, sample, append(append([]string{}, mc.args...), sin...)...)
			obs := func(rr runRes, inputs []string) (string, any) {
				l := []int{rr.exit}
				if !mc.json {
					return nlist(l), nil
				}
				if len(bytes.TrimSpace(rr.stdout)) == 0 {
					return nlist(append(l, 0, 0)), nil
				}
				v, err := oneJSON(rr.stdout)
				if err != nil {
					return nlist(append(l, 9, 0)), nil
				}
				n := 0
				if m, ok := v.(map[string]any); ok {
					if a, ok := m[mc.arrKey].([]any); ok {
						n = len(a)
					}
				}
				return nlist(append(l, 1, n)), v
			}
			fo, fv := obs(fr, fin)
			so, sv := obs(sr, sin)
			o.cases = append(o.cases, [3]string{"multi", "false\t" + vh.Bool(mc.json) + "\t" + codes, fo}, [3]string{"multi", "true\t" + vh.Bool(mc.json) + "\t" + codes, so})
			in := fmt.Sprintf("file: pdfcpu %s %s | stream: pdfcpu %s %s < in.pdf", strings.Join(mc.args, " "), strings.Join(fin, " "), strings.Join(mc.args, " "), strings.Join(sin, " "))
			fail := func(class, detail string) { o.fails = append(o.fails, [3]string{class, in, trunc(detail, 600)}) }
			bad := false
			if fr.exit != sr.exit {
				fail("multi-input-exit-status-differs:"+mc.name, fmt.Sprintf("file %d stream %d; stream stderr: %s", fr.exit, sr.exit, trunc(string(sr.stderr), 300)))
				bad = true
			}
			if !sc.good {
				for _, x := range []struct {
					n  string
					rr runRes
				}{{"file", fr}, {"stream", sr}} {
					switch {
					case x.rr.exit == 0:
						fail("multi-input-failure-exit-zero:"+mc.name+":"+x.n, trunc(string(x.rr.stdout), 200))
						bad = true
					case x.rr.exit != 1:
						fail("multi-input-failure-exit-not-1:"+mc.name+":"+x.n, fmt.Sprintf("exit %d %s", x.rr.exit, trunc(string(x.rr.stderr), 300)))
						bad = true
					case len(bytes.TrimSpace(x.rr.stderr)) == 0:
						fail("multi-input-failure-not-reported:"+mc.name+":"+x.n, "empty stderr")
						bad = true
					case bytes.Contains(x.rr.stderr, []byte("goroutine ")) || bytes.Contains(x.rr.stderr, []byte("panic:")):
						fail("multi-input-failure-panic:"+mc.name+":"+x.n, trunc(string(x.rr.stderr), 300))
						bad = true
					}
				}
				if a, b := textNorm(fr.stderr, "in.pdf"), textNorm(sr.stderr, "in.pdf"); a != b {
					fail("multi-input-stderr-differs:"+mc.name, firstDiff(a, b))
					bad = true
				}
			} else if fr.exit != 0 || sr.exit != 0 {
				fail("multi-input-command-fails:"+mc.name, fmt.Sprintf("file %d (%s) stream %d (%s)", fr.exit, trunc(string(fr.stderr), 200), sr.exit, trunc(string(sr.stderr), 200)))
				bad = true
			}
			if mc.json {
				// machine-readable output: the stream variant prints a JSON document iff the file variant does
				fEmpty, sEmpty := len(bytes.TrimSpace(fr.stdout)) == 0, len(bytes.TrimSpace(sr.stdout)) == 0
				switch {
				case fEmpty && !sEmpty:
					fail("multi-input-json-output-on-failure:"+mc.name, trunc(string(sr.stdout), 300))
					bad = true
				case !fEmpty && sEmpty:
					fail("multi-input-json-missing:"+mc.name, trunc(string(sr.stderr), 300))
					bad = true
				case !fEmpty:
					if fv == nil || sv == nil {
						fail("json-stdout-not-one-document:multi-"+mc.name, trunc(string(sr.stdout), 200))
						bad = true
						break
					}
					fb, _ := json.Marshal(scrubJSON(fv, ""))
					sb, _ := json.Marshal(scrubJSON(sv, ""))
					if !bytes.Equal(fb, sb) {
						fail("multi-input-json-differs:"+mc.name, firstDiff(string(fb), string(sb)))
						bad = true
					}
					// entries correspond 1:1 to the inputs (count, and order where entries carry their source)
					for vi, v := range []any{fv, sv} {
						inputs := [][]string{fin, sin}[vi]
						a, _ := v.(map[string]any)[mc.arrKey].([]any)
						if len(a) != len(inputs) {
							fail("multi-input-json-entry-count:"+mc.name, fmt.Sprintf("%d entries for %d inputs", len(a), len(inputs)))
							bad = true
							continue
						}
						for i, e := range a {
							if m, ok := e.(map[string]any); ok {
								if src, ok := m["source"].(string); ok && src != inputs[i] && !(inputs[i] == "-" && src == "stdin") {
									fail("multi-input-json-entry-order:"+mc.name, fmt.Sprintf("entry %d has source %q, input is %q", i, src, inputs[i]))
									bad = true
								}
							}
						}
					}
				}
				if sc.good && sEmpty && sr.exit == 0 {
					fail("multi-input-json-missing:"+mc.name, "exit 0 and empty stdout")
					bad = true
				}
			} else if a, b := textNorm(fr.stdout, "in.pdf"), textNorm(sr.stdout, "in.pdf"); a != b {
				fail("multi-input-text-output-differs:"+mc.name, firstDiff(a, b))
				bad = true
			}
			if ents, _ := os.ReadDir(filepath.Join(dir, "tmp")); len(ents) != 0 {
				fail("temporary-stdin-copy-left-behind:multi-"+mc.name, ents[0].Name())
				bad = true
			}
			if !bad {
				o.ok()
			}
			o.counters = append(o.counters, "C:"+sc.name)
			os.RemoveAll(dir)
		}
	}
	return outs
}

// ------------------------------------------------------------------ part D: page selections

const selPages = 6

var selRef map[string]int // normalised single-page document -> page number of SEL.pdf

// selections with negated terms (!N, nN), ranges minus pages, l, odd/even with negation,
// yielding 0, 1 and >= 2 pages of a 6 page document
var selections = []string{
	"2-3,!2", "1-3,!1,!2", "5,n6", "!2", "n3", "l", "l,!l", "odd,!1,!3", "even,n2,n4", "odd,!1",
	"even,!2", "2,!2", "-2,!1", "4-,!5-", "1-l,!2-l", "3,!l", "1-3", "1-3,!2", "2", "7", "1-l,n1,n2,n3,n4,n5",
	"odd,n3-l", "!odd", "even,!even",
}

func selMapArg(sel string) (string, bool) {
	ps, err := api.ParsePageSelection(sel)
	if err != nil {
		return "", false
	}
	m, err := api.PagesForPageSelection(selPages, ps, true, false)
	if err != nil {
		return "", false
	}
	keys := make([]int, 0, len(m))
	for k := range m {
		keys = append(keys, k)
	}
	sort.Ints(keys)
	var l []int
	for _, k := range keys {
		v := 0
		if m[k] {
			v = 1
		}
		l = append(l, k, v)
	}
	return nlist(l), true
}

// extract -m page -p SEL … : directory (file mode) vs "-" (stdout mode), file and stdin input
func runSelStdout(sel string, idx int, cfg string, both bool) *outcome {
	rec := recipe{name: "sel-extract-page-stdout", args: []string{"extract", "-m", "page", "-p", sel, "IN", "-"}}
	o := &outcome{rec: rec, variant: sel}
	dir := filepath.Join(scratch, fmt.Sprintf("d%d", idx))
	must(os.MkdirAll(filepath.Join(dir, "fd"), 0o755))
	sample := fixture("SEL.pdf")
	must(os.WriteFile(filepath.Join(dir, "in.pdf"), sample, 0o644))
	defer os.RemoveAll(dir)
	fr := runBin(cfg, dir, nil, "extract", "-m", "page", "-p", sel, "in.pdf", "fd")
	ents, _ := os.ReadDir(filepath.Join(dir, "fd"))
	var fileNorm string
	if fr.exit == 0 && len(ents) == 1 {
		b, _ := os.ReadFile(filepath.Join(dir, "fd", ents[0].Name()))
		fileNorm, _ = normPDF(b, "", "")
	}
	marg, haveMap := selMapArg(sel)
	for _, v := range []struct {
		name, in string
		stdin    []byte
	}{{"stdin-in", "-", sample}, {"file-in", "in.pdf", nil}} {
		if v.name == "file-in" && !both {
			continue
		}
		sr := runBin(cfg, dir, v.stdin, "extract", "-m", "page", "-p", sel, v.in, "-")
		input := fmt.Sprintf("pdfcpu extract -m page -p '%s' %s -   (6 page document; file mode wrote %d file(s), exit %d)", sel, v.in, len(ents), fr.exit)
		fail := func(class, detail string) { o.fails = append(o.fails, [3]string{class, input, trunc(detail, 400)}) }
		obs := "0"
		bad := false
		if sr.exit == 0 {
			obs = "1,ff"
			if n, err := normPDF(sr.stdout, "", ""); err == nil {
				if p, ok := selRef[n]; ok {
					obs = fmt.Sprintf("1,%x", p)
				}
			}
		}
		if haveMap {
			o.cases = append(o.cases, [3]string{"seldec", marg, obs})
		}
		switch {
		case fr.exit != 0:
			// the selection is refused in file mode: stdout mode must refuse it too
			if sr.exit == 0 || len(sr.stdout) != 0 {
				fail("selection-refused-in-file-mode-only", fmt.Sprintf("stdout mode exit %d, %d bytes", sr.exit, len(sr.stdout)))
				bad = true
			}
		case len(ents) == 1:
			if sr.exit != 0 {
				fail("selection-one-page-refused-on-stdout", fmt.Sprintf("exit %d: %s", sr.exit, trunc(string(sr.stderr), 200)))
				bad = true
			} else if n, err := normPDF(sr.stdout, "", ""); err != nil || n != fileNorm {
				fail("selection-stdout-page-differs-from-file-mode", fmt.Sprintf("stdout page %s, file mode %s", obs, ents[0].Name()))
				bad = true
			}
		default:
			if sr.exit == 0 {
				fail("selection-not-one-page-written-to-stdout", fmt.Sprintf("stdout carries page %s although file mode selects %d pages", obs, len(ents)))
				bad = true
			} else if sr.exit != 1 {
				fail("selection-failure-exit-not-1", fmt.Sprintf("exit %d", sr.exit))
				bad = true
			}
		}
		if sr.exit != 0 && len(sr.stdout) != 0 {
			fail("selection-failure-stdout-not-empty", trunc(string(sr.stdout), 100))
			bad = true
		}
		if sr.exit != 0 && len(bytes.TrimSpace(sr.stderr)) == 0 {
			fail("selection-failure-no-error-message", "")
			bad = true
		}
		if !bad {
			o.ok()
		}
	}
	o.counters = append(o.counters, fmt.Sprintf("D:file-mode-pages=%d", min(len(ents), 2)))
	return o
}

type selCmd struct {
	name  string
	args  []string // SEL, IN, OUT / OUTDIR placeholders
	dir   bool
	quick bool
}

var selCmds = []selCmd{
	{name: "trim", args: []string{"trim", "-p", "SEL", "IN", "OUT"}, quick: true},
	{name: "collect", args: []string{"collect", "-p", "SEL", "IN", "OUT"}, quick: true},
	{name: "rotate", args: []string{"rotate", "-p", "SEL", "IN", "90", "OUT"}},
	{name: "pages-remove", args: []string{"pages", "remove", "-p", "SEL", "IN", "OUT"}},
	{name: "stamp-add", args: []string{"stamp", "add", "-p", "SEL", "-m", "text", "--", "x", "rot:0", "IN", "OUT"}},
	{name: "crop", args: []string{"crop", "-p", "SEL", "--", "[0 0 100 100]", "IN", "OUT"}},
	{name: "extract-pages", args: []string{"extract", "-m", "page", "-p", "SEL", "IN", "OUTDIR"}, dir: true},
	{name: "extract-content", args: []string{"extract", "-m", "content", "-p", "SEL", "IN", "OUTDIR"}, dir: true},
	{name: "extract-images", args: []string{"extract", "-m", "image", "-p", "SEL", "IN", "OUTDIR"}, dir: true},
}

func runSelCmd(sc selCmd, sel string, idx int, cfg string) *outcome {
	args := make([]string, len(sc.args))
	for i, a := range sc.args {
		if a == "SEL" {
			a = sel
		}
		args[i] = a
	}
	rec := recipe{name: "sel-" + sc.name, args: args}
	o := &outcome{rec: rec, variant: sel}
	dir := filepath.Join(scratch, fmt.Sprintf("e%d", idx))
	must(os.MkdirAll(filepath.Join(dir, "fd"), 0o755))
	must(os.MkdirAll(filepath.Join(dir, "sd"), 0o755))
	sample := fixture("SEL.pdf")
	must(os.WriteFile(filepath.Join(dir, "in.pdf"), sample, 0o644))
	defer os.RemoveAll(dir)
	input := "pdfcpu " + strings.Join(args, " ")
	fail := func(class, detail string) { o.fails = append(o.fails, [3]string{class, input, trunc(detail, 400)}) }
	var fr, sr runRes
	if sc.dir {
		fr = runBin(cfg, dir, nil, subst(args, "in.pdf", "", "fd", "")...)
		sr = runBin(cfg, dir, sample, subst(args, "-", "", "sd", "")...)
	} else {
		fr = runBin(cfg, dir, nil, subst(args, "in.pdf", "f.pdf", "", "")...)
		sr = runBin(cfg, dir, sample, subst(args, "-", "-", "", "")...)
	}
	if (fr.exit == 0) != (sr.exit == 0) {
		fail("selection-exit-status-differs:"+sc.name, fmt.Sprintf("file %d (%s) stream %d (%s)", fr.exit, trunc(string(fr.stderr), 150), sr.exit, trunc(string(sr.stderr), 150)))
		return o
	}
	if sr.exit != 0 {
		if !sc.dir && len(sr.stdout) != 0 {
			fail("selection-failure-stdout-not-empty:"+sc.name, trunc(string(sr.stdout), 100))
			return o
		}
		o.ok()
		return o
	}
	if sc.dir {
		fe, _ := os.ReadDir(filepath.Join(dir, "fd"))
		se, _ := os.ReadDir(filepath.Join(dir, "sd"))
		if len(fe) != len(se) {
			fail("selection-output-count-differs:"+sc.name, fmt.Sprintf("file mode %d files, stdin mode %d files", len(fe), len(se)))
			return o
		}
		for i := range fe {
			a, _ := os.ReadFile(filepath.Join(dir, "fd", fe[i].Name()))
			b, _ := os.ReadFile(filepath.Join(dir, "sd", se[i].Name()))
			same := bytes.Equal(a, b)
			if bytes.HasPrefix(a, []byte("%PDF-")) {
				an, e1 := normPDF(a, "", "")
				bn, e2 := normPDF(b, "", "")
				same = e1 == nil && e2 == nil && an == bn
			}
			if !same || strings.TrimPrefix(fe[i].Name(), "in") != strings.TrimPrefix(se[i].Name(), "stdin") {
				fail("selection-output-differs:"+sc.name, fe[i].Name()+" vs "+se[i].Name())
				return o
			}
		}
		o.ok()
		return o
	}
	fb, err := os.ReadFile(filepath.Join(dir, "f.pdf"))
	if err != nil {
		fail("file-variant-no-output:sel-"+sc.name, err.Error())
		return o
	}
	if len(sr.stdout) == 0 || len(fb) == 0 {
		// exit status 0 but no document: "nothing" is only allowed together with a non-zero exit status
		fail("empty-selection-exits-zero-without-document:"+sc.name, fmt.Sprintf("exit 0 in both modes; stdout %d bytes, output file %d bytes; file-mode stderr: %s", len(sr.stdout), len(fb), trunc(string(fr.stderr), 200)))
		return o
	}
	fn, e1 := normPDF(fb, "", "")
	sn, e2 := normPDF(sr.stdout, "", "")
	if e1 != nil || e2 != nil {
		fail("selection-output-unreadable:"+sc.name, fmt.Sprint(e1, e2))
		return o
	}
	if fn != sn {
		fail("selection-document-differs:"+sc.name, firstDiff(fn, sn))
		return o
	}
	o.ok()
	return o
}

// ------------------------------------------------------------------ part E: stdin read faults

// faultyStdin returns a file (one end of an AF_UNIX stream socket pair) from which exactly
// `prefix` can be read and whose next read fails with ECONNRESET: the peer is closed while it
// still has unread data in its own receive queue.
func faultyStdin(prefix []byte) (*os.File, error) {
	if len(prefix) > 60000 {
		return nil, errors.New("prefix too large for the socket buffer")
	}
	fds, err := syscall.Socketpair(syscall.AF_UNIX, syscall.SOCK_STREAM|syscall.SOCK_CLOEXEC, 0)
	if err != nil {
		return nil, err
	}
	// unread byte in the peer's queue -> closing the peer resets the connection
	if _, err := syscall.Write(fds[0], []byte{0}); err != nil {
		return nil, err
	}
	for off := 0; off < len(prefix); {
		n, err := syscall.Write(fds[1], prefix[off:])
		if err != nil {
			return nil, err
		}
		off += n
	}
	if err := syscall.Close(fds[1]); err != nil {
		return nil, err
	}
	return os.NewFile(uintptr(fds[0]), "faulty-stdin"), nil
}

// a PDF with two revisions written by hand (classic xref tables): revision 1 alone is a valid
// one-page document, the whole file has two pages.  Returns the bytes and the length of revision 1.
func twoRevisionPDF() ([]byte, int) {
	var b bytes.Buffer
	off := map[int]int{}
	obj := func(nr int, body string) {
		off[nr] = b.Len()
		fmt.Fprintf(&b, "%d 0 obj\n%s\nendobj\n", nr, body)
	}
	b.WriteString("%PDF-1.7\n%\xe2\xe3\xcf\xd3\n")
	content := "0 0 1 rg 10 10 50 50 re f"
	obj(1, "<< /Type /Catalog /Pages 2 0 R >>")
	obj(2, "<< /Type /Pages /Kids [3 0 R] /Count 1 >>")
	obj(3, "<< /Type /Page /Parent 2 0 R /MediaBox [0 0 200 200] /Contents 4 0 R /Resources << >> >>")
	obj(4, fmt.Sprintf("<< /Length %d >>\nstream\n%s\nendstream", len(content), content))
	x1 := b.Len()
	b.WriteString("xref\n0 5\n0000000000 65535 f \n")
	for i := 1; i <= 4; i++ {
		fmt.Fprintf(&b, "%010d 00000 n \n", off[i])
	}
	fmt.Fprintf(&b, "trailer\n<< /Size 5 /Root 1 0 R >>\nstartxref\n%d\n%%%%EOF\n", x1)
	rev1 := b.Len()
	obj(2, "<< /Type /Pages /Kids [3 0 R 5 0 R] /Count 2 >>")
	obj(5, "<< /Type /Page /Parent 2 0 R /MediaBox [0 0 300 300] /Contents 4 0 R /Resources << >> >>")
	x2 := b.Len()
	fmt.Fprintf(&b, "xref\n0 1\n0000000000 65535 f \n2 1\n%010d 00000 n \n5 1\n%010d 00000 n \n", off[2], off[5])
	fmt.Fprintf(&b, "trailer\n<< /Size 6 /Root 1 0 R /Prev %d >>\nstartxref\n%d\n%%%%EOF\n", x1, x2)
	return b.Bytes(), rev1
}

func runBinStdinFile(cfgHome, dir string, stdin *os.File, args ...string) runRes {
	cmd := exec.Command(bin, args...)
	cmd.Dir = dir
	cmd.Env = []string{"HOME=" + cfgHome, "XDG_CONFIG_HOME=" + filepath.Join(cfgHome, ".config"), "PATH=/usr/bin:/bin", "GOMAXPROCS=2", "TMPDIR=" + filepath.Join(dir, "tmp")}
	os.MkdirAll(filepath.Join(dir, "tmp"), 0o755)
	cmd.Stdin = stdin
	var so, se bytes.Buffer
	cmd.Stdout, cmd.Stderr = &so, &se
	err := cmd.Start()
	stdin.Close()
	if err != nil {
		return runRes{exit: -1, err: err}
	}
	done := make(chan error, 1)
	go func() { done <- cmd.Wait() }()
	select {
	case err = <-done:
	case <-time.After(120 * time.Second):
		cmd.Process.Kill()
		return runRes{exit: -2, stdout: so.Bytes(), stderr: se.Bytes(), err: errors.New("timeout")}
	}
	code := 0
	if err != nil {
		var ee *exec.ExitError
		if errors.As(err, &ee) {
			code = ee.ExitCode()
		} else {
			code = -1
		}
	}
	return runRes{exit: code, stdout: so.Bytes(), stderr: se.Bytes()}
}

// one recipe x every fault point: stdin delivers doc[:k] and then fails
func runFaults(rec recipe, idx int, cfg string, doc []byte, rev1 int) []*outcome {
	var outs []*outcome
	points := []struct {
		label string
		k     int
	}{{"0", 0}, {"1", 1}, {"header", 9}, {"end-of-revision-1", rev1}, {"len-1", len(doc) - 1}}
	for pi, pt := range points {
		o := &outcome{rec: recipe{name: "fault-" + rec.name, args: rec.args}, variant: "stdin-fails-after-" + pt.label}
		outs = append(outs, o)
		dir := filepath.Join(scratch, fmt.Sprintf("f%d-%d", idx, pi))
		prepDir(dir, rec, doc)
		must(os.MkdirAll(filepath.Join(dir, "sd"), 0o755))
		var a []string
		outFile := ""
		switch rec.kind {
		case "pdf":
			if pi%2 == 0 {
				a = subst(rec.args, "-", "-", "", "")
			} else {
				a, outFile = subst(rec.args, "-", "fault-out.pdf", "", ""), "fault-out.pdf"
			}
		case "pdf1":
			a = subst(rec.args, "-", "", "-", "")
		case "jsonout":
			a = subst(rec.args, "-", "", "", "-")
		case "jsonfile":
			a, outFile = subst(rec.args, "-", "", "", "fault-out.json"), "fault-out.json"
		case "dir":
			a = subst(rec.args, "-", "", "sd", "")
		default:
			a = subst(rec.args, "-", "", "", "")
		}
		in, err := faultyStdin(doc[:pt.k])
		must(err)
		sr := runBinStdinFile(cfg, dir, in, a...)
		input := fmt.Sprintf("pdfcpu %s   with stdin = first %d of %d bytes of a two-revision PDF (revision 1 ends at %d), then read(2) fails with ECONNRESET", strings.Join(a, " "), pt.k, len(doc), rev1)
		fail := func(class, detail string) { o.fails = append(o.fails, [3]string{class, input, trunc(detail, 400)}) }
		o.cases = append(o.cases, [3]string{"exit", "false", fmt.Sprintf("%x", sr.exit)})
		bad := false
		switch {
		case sr.exit == 0:
			fail("stdin-read-error-exit-zero:"+rec.name+":after-"+pt.label, fmt.Sprintf("stdout %d bytes; stderr: %s", len(sr.stdout), trunc(string(sr.stderr), 200)))
			bad = true
		case sr.exit != 1:
			fail("stdin-read-error-exit-not-1:"+rec.name, fmt.Sprintf("exit %d %s", sr.exit, trunc(string(sr.stderr), 300)))
			bad = true
		}
		if len(sr.stdout) != 0 {
			fail("stdin-read-error-stdout-not-empty:"+rec.name+":after-"+pt.label, trunc(string(sr.stdout), 100))
			bad = true
		}
		if sr.exit != 0 && len(bytes.TrimSpace(sr.stderr)) == 0 {
			fail("stdin-read-error-no-message:"+rec.name, "")
			bad = true
		}
		if outFile != "" {
			if _, err := os.Stat(filepath.Join(dir, outFile)); err == nil {
				fail("stdin-read-error-leaves-output-file:"+rec.name+":after-"+pt.label, outFile)
				bad = true
			}
		}
		if ents, _ := os.ReadDir(filepath.Join(dir, "sd")); len(ents) != 0 {
			fail("stdin-read-error-writes-output:"+rec.name+":after-"+pt.label, ents[0].Name())
			bad = true
		}
		if ents, _ := os.ReadDir(filepath.Join(dir, "tmp")); len(ents) != 0 {
			fail("temporary-stdin-copy-left-behind:fault-"+rec.name, ents[0].Name())
			bad = true
		}
		if !bad {
			o.ok()
		}
		o.counters = append(o.counters, "E:after-"+pt.label)
		os.RemoveAll(dir)
	}
	return outs
}

// ------------------------------------------------------------------ part F: list/info commands x flag combinations

type listCmd struct {
	name  string
	base  []string // subcommand (+ fixed flags)
	flags []string // boolean flags; every subset is run
	in    string
	quick bool
}

var listCmds = []listCmd{
	{name: "viewerpref-list", base: []string{"viewerpref", "list"}, flags: []string{"--all", "--json"}, in: "VP.pdf", quick: true},
	{name: "viewerpref-list-plain-doc", base: []string{"viewerpref", "list"}, flags: []string{"--all", "--json"}, in: "MULTI.pdf"},
	{name: "info", base: []string{"info"}, flags: []string{"--fonts", "--json"}, in: "MULTI.pdf", quick: true},
	{name: "info-pages", base: []string{"info", "-p", "1-2"}, flags: []string{"--fonts", "--json"}, in: "go.pdf"},
	{name: "annotations-list", base: []string{"annotations", "list"}, flags: []string{"--json"}, in: "annotTest.pdf"},
	{name: "form-list", base: []string{"form", "list"}, flags: []string{"--json"}, in: "samples:form/demo/english.pdf"},
	{name: "attachments-list", base: []string{"attachments", "list"}, in: "ATT.pdf"},
	{name: "portfolio-list", base: []string{"portfolio", "list"}, in: "ATT.pdf"},
	{name: "bookmarks-list", base: []string{"bookmarks", "list"}, in: "BM.pdf"},
	{name: "boxes-list", base: []string{"boxes", "list"}, in: "MULTI.pdf"},
	{name: "images-list", base: []string{"images", "list"}, in: "go.pdf"},
	{name: "keywords-list", base: []string{"keywords", "list"}, in: "KW.pdf"},
	{name: "properties-list", base: []string{"properties", "list"}, in: "PROP.pdf"},
	{name: "permissions-list", base: []string{"permissions", "list", "--upw", "u1"}, in: "ENC.pdf"},
	{name: "pagelayout-list", base: []string{"pagelayout", "list"}, in: "MULTI.pdf"},
	{name: "pagemode-list", base: []string{"pagemode", "list"}, in: "MULTI.pdf"},
	{name: "signatures-validate", base: []string{"signatures", "validate"}, flags: []string{"--all", "--full"}, in: "MULTI.pdf"},
	{name: "validate", base: []string{"validate"}, flags: []string{"--optimize", "--progress"}, in: "MULTI.pdf"},
}

func runListCmd(lc listCmd, idx int, cfg string) []*outcome {
	var outs []*outcome
	sample := fixture(lc.in)
	for mask := 0; mask < 1<<len(lc.flags); mask++ {
		var fl []string
		isJSON := false
		for i, f := range lc.flags {
			if mask&(1<<i) != 0 {
				fl = append(fl, f)
				if f == "--json" {
					isJSON = true
				}
			}
		}
		args := append(append([]string{}, lc.base...), fl...)
		o := &outcome{rec: recipe{name: "list-" + lc.name, args: append(append([]string{}, args...), "IN")}, variant: "flags=" + strings.Join(fl, ",")}
		outs = append(outs, o)
		dir := filepath.Join(scratch, fmt.Sprintf("l%d-%d", idx, mask))
		must(os.MkdirAll(dir, 0o755))
		must(os.WriteFile(filepath.Join(dir, "in.pdf"), sample, 0o644))
		fr := runBin(cfg, dir, nil, append(append([]string{}, args...), "in.pdf")...)
		sr := runBin(cfg, dir, sample, append(append([]string{}, args...), "-")...)
		input := fmt.Sprintf("file: pdfcpu %s in.pdf | stdin: pdfcpu %s - < in.pdf", strings.Join(args, " "), strings.Join(args, " "))
		fail := func(class, detail string) { o.fails = append(o.fails, [3]string{class, input, trunc(detail, 500)}) }
		tag := lc.name + ":" + strings.Join(fl, "")
		switch {
		case fr.exit != sr.exit:
			fail("list-exit-status-differs:"+tag, fmt.Sprintf("file %d (%s) stdin %d (%s)", fr.exit, trunc(string(fr.stderr), 150), sr.exit, trunc(string(sr.stderr), 150)))
		case isJSON && fr.exit == 0:
			fv, e1 := oneJSON(fr.stdout)
			sv, e2 := oneJSON(sr.stdout)
			if e1 != nil || e2 != nil {
				fail("json-stdout-not-one-document:list-"+tag, fmt.Sprint(e1, e2))
				break
			}
			fb, _ := json.Marshal(scrubJSON(fv, ""))
			sb, _ := json.Marshal(scrubJSON(sv, ""))
			if !bytes.Equal(fb, sb) {
				fail("list-output-differs-between-stdin-and-file:"+tag, firstDiff(string(fb), string(sb)))
				break
			}
			o.ok()
		default:
			a, b := textNorm(fr.stdout, "in.pdf"), textNorm(sr.stdout, "in.pdf")
			if a != b && strings.Contains(tag, "--fonts") {
				// the font table lists equal names in map-iteration order: compare as multisets of lines
				la, lb := strings.Split(a, "\n"), strings.Split(b, "\n")
				sort.Strings(la)
				sort.Strings(lb)
				a, b = strings.Join(la, "\n"), strings.Join(lb, "\n")
			}
			if a != b {
				fail("list-output-differs-between-stdin-and-file:"+tag, firstDiff(a, b))
				break
			}
			o.ok()
		}
		o.counters = append(o.counters, "F:"+lc.name)
		os.RemoveAll(dir)
	}
	return outs
}

func firstDiff(a, b string) string {
	n := len(a)
	if len(b) < n {
		n = len(b)
	}
	i := 0
	for i < n && a[i] == b[i] {
		i++
	}
	lo := i - 60
	if lo < 0 {
		lo = 0
	}
	ha, hb := i+100, i+100
	if ha > len(a) {
		ha = len(a)
	}
	if hb > len(b) {
		hb = len(b)
	}
	return fmt.Sprintf("at %d: file …%s… | stream …%s…", i, a[lo:ha], b[lo:hb])
}

func main() {
	r := vh.Start("C41")
	defer r.Finish()
	api.DisableConfigDir()
	repo = os.Getenv("VERIF_REPO")
	if repo == "" {
		repo = "/repo"
	}
	verif := os.Getenv("VERIF_DIR")
	if verif == "" {
		verif = "/verif"
	}
	scratch = filepath.Join("/tmp/c41-scratch", fmt.Sprintf("run-%d", os.Getpid()))
	must(os.MkdirAll(scratch, 0o755))
	defer os.RemoveAll(scratch)

	partA(r)
	stdinCopyCases(r)

	// exit-status model cases
	r.Case("exit", []string{"true"}, "0")

	// build the real binary from the tree under test
	bin = filepath.Join(scratch, "pdfcpu")
	bc := exec.Command("go", "build", "-o", bin, "./cmd/pdfcpu")
	bc.Dir = repo
	bc.Env = append(os.Environ(), "GOFLAGS=-mod=mod", "GOPROXY=off")
	if out, err := bc.CombinedOutput(); err != nil {
		fmt.Fprintf(os.Stderr, "cannot build %s/cmd/pdfcpu: %v\n%s\n", repo, err, out)
		r.Finish()
		os.RemoveAll(scratch)
		os.Exit(3)
	}

	// table coverage
	var tab table
	tb, err := os.ReadFile(filepath.Join(verif, "build", "C41", "table.json"))
	if err != nil {
		fmt.Fprintf(os.Stderr, "no generated table (run genc41 with -json): %v\n", err)
		r.Finish()
		os.RemoveAll(scratch)
		os.Exit(3)
	}
	must(json.Unmarshal(tb, &tab))
	recs := recipes()
	covered := map[string]bool{}
	for _, rc := range recs {
		for _, e := range rc.execs {
			covered[e] = true
		}
	}
	uncovered := []string{}
	for _, row := range tab.Cli {
		if row.NDash == 0 && !row.Stdout {
			continue
		}
		if !covered[row.Name] {
			if _, ok := notExercised[row.Name]; ok {
				r.Count("B:not-exercised")
				continue
			}
			uncovered = append(uncovered, row.Name)
		}
	}
	for _, row := range tab.JSON {
		if !covered[row.Handler] {
			uncovered = append(uncovered, row.Handler)
		}
	}
	if len(uncovered) > 0 {
		fmt.Fprintf(os.Stderr, "functions that handle \"-\" / JSON flags without a harness recipe: %v\n", uncovered)
		r.Finish()
		os.RemoveAll(scratch)
		os.Exit(4)
	}

	// existing configuration directory (warm-up creates it)
	cfg := filepath.Join(scratch, "home")
	must(os.MkdirAll(cfg, 0o755))
	if w := runBin(cfg, scratch, nil, "version"); w.exit != 0 {
		fmt.Fprintf(os.Stderr, "warm-up failed: %s\n", w.stderr)
		os.Exit(3)
	}
	if err := makeDerived(cfg); err != nil {
		fmt.Fprintf(os.Stderr, "%v\n", err)
		r.Finish()
		os.RemoveAll(scratch)
		os.Exit(3)
	}

	thorough := r.Thorough()
	results := make([][]*outcome, len(recs))
	var wg sync.WaitGroup
	sem := make(chan struct{}, 12)
	for i := range recs {
		if !thorough && !recs[i].quick && (i+int(r.Seed))%6 != 0 {
			// quick tier: all quick recipes + a rotating sixth of the others
			r.Count("B:recipe-skipped-in-quick-tier")
			continue
		}
		wg.Add(1)
		go func(i int) {
			defer wg.Done()
			sem <- struct{}{}
			defer func() { <-sem }()
			defer func() {
				if p := recover(); p != nil {
					o := &outcome{rec: recs[i], variant: "harness"}
					o.fail("harness-panic:"+recs[i].name, fmt.Sprint(p))
					results[i] = append(results[i], o)
				}
			}()
			results[i] = runRecipe(recs[i], i, cfg, thorough)
		}(i)
	}
	mcs := multiCmds()
	mresults := make([][]*outcome, len(mcs))
	for i := range mcs {
		if !thorough && !mcs[i].quick && (i+int(r.Seed))%5 != 0 {
			r.Count("C:command-skipped-in-quick-tier")
			continue
		}
		wg.Add(1)
		go func(i int) {
			defer wg.Done()
			sem <- struct{}{}
			defer func() { <-sem }()
			defer func() {
				if p := recover(); p != nil {
					o := &outcome{rec: recipe{name: "multi-" + mcs[i].name}, variant: "harness"}
					o.fail("harness-panic:multi-"+mcs[i].name, fmt.Sprint(p))
					mresults[i] = append(mresults[i], o)
				}
			}()
			mresults[i] = runMulti(mcs[i], i, cfg)
		}(i)
	}
	// part D
	type job func() *outcome
	var djobs []job
	for i, sel := range selections {
		i, sel := i, sel
		djobs = append(djobs, func() *outcome { return runSelStdout(sel, i, cfg, thorough || (i+int(r.Seed))%3 == 0) })
	}
	n := 0
	for ci, sc := range selCmds {
		for si, sel := range selections {
			n++
			if !thorough && !(sc.quick && ((si+ci+int(r.Seed))%4 == 0 || sel == "7")) {
				continue
			}
			if thorough && !sc.quick && (si+ci+int(r.Seed))%2 != 0 {
				continue
			}
			sc, sel, k := sc, sel, n
			djobs = append(djobs, func() *outcome { return runSelCmd(sc, sel, k, cfg) })
		}
	}
	// part E: stdin read faults
	faultDoc, rev1 := twoRevisionPDF()
	if n, err := api.PageCount(bytes.NewReader(faultDoc), model.NewDefaultConfiguration()); err != nil || n != 2 {
		fmt.Fprintf(os.Stderr, "two-revision fixture: %v pages=%d\n", err, n)
		r.Finish()
		os.RemoveAll(scratch)
		os.Exit(3)
	}
	if n, err := api.PageCount(bytes.NewReader(faultDoc[:rev1]), model.NewDefaultConfiguration()); err != nil || n != 1 {
		fmt.Fprintf(os.Stderr, "two-revision fixture, revision 1: %v pages=%d\n", err, n)
		r.Finish()
		os.RemoveAll(scratch)
		os.Exit(3)
	}
	// sanity of the demonstration: the prefix alone is processed fine (exit 0, one page)
	if pr := runBin(cfg, scratch, faultDoc[:rev1], "optimize", "-", "-"); pr.exit != 0 {
		r.Count("E:prefix-not-processable-by-optimize")
	} else {
		r.Count("E:prefix-processable-by-optimize")
	}
	faultQuick := map[string]bool{"optimize": true, "trim": true, "info": true, "info-json": true, "validate": true, "extract-page-stdout": true, "extract-pages": true, "merge-nobookmarks": true}
	eresults := make([][]*outcome, len(recs))
	for i := range recs {
		if recs[i].in == "" || (!thorough && !faultQuick[recs[i].name]) {
			continue
		}
		wg.Add(1)
		go func(i int) {
			defer wg.Done()
			sem <- struct{}{}
			defer func() { <-sem }()
			defer func() {
				if p := recover(); p != nil {
					o := &outcome{rec: recipe{name: "fault-" + recs[i].name}, variant: "harness"}
					o.fail("harness-panic:fault-"+recs[i].name, fmt.Sprint(p))
					eresults[i] = append(eresults[i], o)
				}
			}()
			eresults[i] = runFaults(recs[i], i, cfg, faultDoc, rev1)
		}(i)
	}
	// part F
	fresults := make([][]*outcome, len(listCmds))
	for i := range listCmds {
		if !thorough && !listCmds[i].quick && (i+int(r.Seed))%6 != 0 {
			continue
		}
		wg.Add(1)
		go func(i int) {
			defer wg.Done()
			sem <- struct{}{}
			defer func() { <-sem }()
			defer func() {
				if p := recover(); p != nil {
					o := &outcome{rec: recipe{name: "list-" + listCmds[i].name}, variant: "harness"}
					o.fail("harness-panic:list-"+listCmds[i].name, fmt.Sprint(p))
					fresults[i] = append(fresults[i], o)
				}
			}()
			fresults[i] = runListCmd(listCmds[i], i, cfg)
		}(i)
	}
	dresults := make([]*outcome, len(djobs))
	for i := range djobs {
		wg.Add(1)
		go func(i int) {
			defer wg.Done()
			sem <- struct{}{}
			defer func() { <-sem }()
			defer func() {
				if p := recover(); p != nil {
					o := &outcome{rec: recipe{name: "selection"}, variant: "harness"}
					o.fail("harness-panic:selection", fmt.Sprint(p))
					dresults[i] = o
				}
			}()
			dresults[i] = djobs[i]()
		}(i)
	}
	wg.Wait()
	results = append(results, mresults...)
	results = append(results, eresults...)
	results = append(results, fresults...)
	for _, o := range dresults {
		if o != nil {
			o.counters = append(o.counters, "D:"+o.rec.name)
			results = append(results, []*outcome{o})
		}
	}
	for _, outs := range results {
		for _, o := range outs {
			for _, c := range o.cases {
				r.Case(c[0], strings.Split(c[1], "\t"), c[2])
			}
			for _, f := range o.fails {
				r.OracleFail(f[0], f[1], f[2])
			}
			for k := 0; k < o.oks; k++ {
				r.OracleOK()
			}
			for _, c := range o.counters {
				r.Count(c)
			}
			if o.rec.kind != "" {
				r.Count("B:" + o.rec.kind + "/" + o.variant)
			}
		}
	}
}
