package main

// Wire format of object graphs (model side: ocaml/C19_glue.ml) and the canonical,
// numbering-independent form of the graph reachable from the trailer.

import (
	"context"
	"crypto/md5"
	"crypto/sha1"
	"encoding/hex"
	"fmt"
	"os"
	"sort"
	"strings"

	"github.com/pdfcpu/pdfcpu/pkg/pdfcpu/model"
	"github.com/pdfcpu/pdfcpu/pkg/pdfcpu/types"
	"verif/vh"
)

func hx(s string) string { return hex.EncodeToString([]byte(s)) }

func sortedKeys(d types.Dict) []string {
	ks := make([]string, 0, len(d))
	for k := range d {
		ks = append(ks, k)
	}
	sort.Strings(ks)
	return ks
}

type unsupported struct{ what string }

func (u unsupported) Error() string { return u.what }

func rawToken(sd types.StreamDict) string {
	h := sha1.Sum(sd.Raw)
	return hex.EncodeToString(h[:])
}

// obj := n | T | F | i<hex> | r<hexbytes> | /<hexbytes> | s<hexbytes> | h<hexbytes> | R<hexnr>
//      | [ obj* ] | < (k<hexbytes> obj)* > | S < ... > =<hexbytes>
// dict keys sorted bytewise. drop: keys left out of a top-level dict.
func ser(o types.Object, drop map[string]bool) string {
	switch o := o.(type) {
	case nil:
		return "n"
	case types.Boolean:
		if o {
			return "T"
		}
		return "F"
	case types.Integer:
		return "i" + vh.Int(int64(o))
	case types.Float:
		return "r" + hx(o.PDFString())
	case types.Name:
		return "/" + hx(string(o))
	case types.StringLiteral:
		return "s" + strBytes(o)
	case types.HexLiteral:
		return "s" + strBytes(o)
	case types.IndirectRef:
		if o.GenerationNumber != 0 {
			panic(unsupported{"generation"})
		}
		return "R" + vh.Int(int64(o.ObjectNumber))
	case types.Array:
		p := []string{"["}
		for _, e := range o {
			p = append(p, ser(e, nil))
		}
		p = append(p, "]")
		return strings.Join(p, " ")
	case types.Dict:
		return serDict(o, drop)
	case types.StreamDict:
		// /Length: left out, except (for the model, which follows it) when it is a reference
		d := map[string]bool{}
		if _, isRef := o.Dict["Length"].(types.IndirectRef); !isRef || drop["Length"] {
			d["Length"] = true
		}
		return "S " + serDict(o.Dict, d) + " =" + rawToken(o)
	case types.ObjectStreamDict:
		panic(unsupported{"objstm"})
	case types.XRefStreamDict:
		panic(unsupported{"xrefstm"})
	}
	panic(unsupported{fmt.Sprintf("type %T", o)})
}

func serDict(d types.Dict, drop map[string]bool) string {
	p := []string{"<"}
	for _, k := range sortedKeys(d) {
		if drop[k] {
			continue
		}
		p = append(p, "k"+hx(k), ser(d[k], nil))
	}
	p = append(p, ">")
	return strings.Join(p, " ")
}

// strBytes: the value of a PDF string (hex of its bytes), whatever its syntax
func strBytes(o types.Object) string {
	switch o := o.(type) {
	case types.StringLiteral:
		b, err := types.Unescape(string(o))
		if err != nil {
			return "ERR" + hx(string(o))
		}
		return hex.EncodeToString(b)
	case types.HexLiteral:
		b, err := o.Bytes()
		if err != nil {
			// odd number of digits: a trailing 0 is implied
			b, err = hex.DecodeString(string(o) + "0")
			if err != nil {
				return "ERR" + hx(string(o))
			}
		}
		return hex.EncodeToString(b)
	}
	return "?"
}

var infoVolatile = map[string]bool{"Producer": true, "CreationDate": true, "ModDate": true}

// entryObject returns the object of an in-use entry with lazy object-stream objects decoded.
func entryObject(e *model.XRefTableEntry) (types.Object, error) {
	if l, ok := e.Object.(types.LazyObjectStreamObject); ok {
		return l.DecodedObject(context.TODO())
	}
	return e.Object, nil
}

type tableView struct {
	nrs  []int
	objs map[int]string // wire form (for the model; stream /Length kept when it is a reference)
	txt  map[int]string // the same without any stream /Length
	val  map[int]bool
	lazy map[int]bool
}

// view serialises the in-use entries of ctx (without object streams, xref streams and the
// encryption dictionary). The info dict loses Producer/CreationDate/ModDate.
func view(ctx *model.Context, skip map[int]bool) (tv *tableView, err error) {
	defer func() {
		if e := recover(); e != nil {
			if u, ok := e.(unsupported); ok {
				err = u
				return
			}
			panic(e)
		}
	}()
	tv = &tableView{objs: map[int]string{}, txt: map[int]string{}, val: map[int]bool{}, lazy: map[int]bool{}}
	info := -1
	if ctx.Info != nil {
		info = ctx.Info.ObjectNumber.Value()
	}
	enc := -1
	if ctx.Encrypt != nil {
		enc = ctx.Encrypt.ObjectNumber.Value()
	}
	for nr, e := range ctx.Table {
		if e == nil || e.Free || nr == 0 || nr == enc || skip[nr] {
			continue
		}
		o, err := entryObject(e)
		if err != nil {
			return nil, err
		}
		switch x := o.(type) {
		case types.ObjectStreamDict, types.XRefStreamDict:
			continue
		case types.StreamDict:
			if t := x.Type(); t != nil && (*t == "ObjStm" || *t == "XRef") {
				continue
			}
		}
		var drop map[string]bool
		if nr == info {
			drop = infoVolatile
		}
		tv.nrs = append(tv.nrs, nr)
		tv.objs[nr] = ser(o, drop)
		if _, isStream := o.(types.StreamDict); isStream {
			tv.txt[nr] = ser(o, map[string]bool{"Length": true})
		} else {
			tv.txt[nr] = tv.objs[nr]
		}
		tv.val[nr] = e.Valid
		if _, ok := e.Object.(types.LazyObjectStreamObject); ok {
			tv.lazy[nr] = true
		}
	}
	sort.Ints(tv.nrs)
	return tv, nil
}

func (tv *tableView) wire() string {
	var b strings.Builder
	for i, nr := range tv.nrs {
		if i > 0 {
			b.WriteByte(' ')
		}
		v := "i"
		if tv.val[nr] {
			v = "v"
		}
		if tv.lazy[nr] {
			v = "l"
		}
		fmt.Fprintf(&b, "#%s %s %s", vh.Int(int64(nr)), v, tv.objs[nr])
	}
	return b.String()
}

// table text as the model prints it: "nr:obj" joined by ";"
func (tv *tableView) text(only map[int]bool) string {
	var b strings.Builder
	for _, nr := range tv.nrs {
		if only != nil && !only[nr] {
			continue
		}
		fmt.Fprintf(&b, "%s:%s;", vh.Int(int64(nr)), tv.txt[nr])
	}
	return b.String()
}

func digest(s string) string {
	if len(s) <= 4000 || os.Getenv("C19_FULL") != "" {
		return s
	}
	h := md5.Sum([]byte(s))
	return fmt.Sprintf("md5:%s:%d", hex.EncodeToString(h[:]), len(s))
}

// ---------------------------------------------------------------- canonical reachable graph

type canon struct {
	ctx   *model.Context
	num   map[int]int
	queue []int
	lines []string
	isInfo int
	isRoot int
}

func streamToken(sd types.StreamDict) string {
	// decoded content where pdfcpu can decode, raw bytes otherwise
	c := sd
	if err := c.Decode(); err == nil && c.Content != nil {
		h := sha1.Sum(c.Content)
		return "D" + hex.EncodeToString(h[:8]) + fmt.Sprintf(".%d", len(c.Content))
	}
	h := sha1.Sum(sd.Raw)
	return "W" + hex.EncodeToString(h[:8]) + fmt.Sprintf(".%d", len(sd.Raw))
}

func (c *canon) ref(nr int) string {
	e, ok := c.ctx.Table[nr]
	if !ok || e == nil || e.Free {
		return "null"
	}
	if o, _ := entryObject(e); o == nil {
		return "null"
	}
	k, ok := c.num[nr]
	if !ok {
		k = len(c.num)
		c.num[nr] = k
		c.queue = append(c.queue, nr)
	}
	return fmt.Sprintf("@%d", k)
}

func (c *canon) obj(o types.Object, drop map[string]bool) string {
	switch o := o.(type) {
	case nil:
		return "null"
	case types.IndirectRef:
		return c.ref(o.ObjectNumber.Value())
	case types.Array:
		p := make([]string, len(o))
		for i, e := range o {
			p[i] = c.obj(e, nil)
		}
		return "[" + strings.Join(p, " ") + "]"
	case types.Dict:
		return c.dict(o, drop)
	case types.StreamDict:
		return "stream" + c.dict(o.Dict, map[string]bool{"Length": true}) + streamToken(o)
	case types.StringLiteral, types.HexLiteral:
		return "(" + strBytes(o) + ")"
	case types.Name:
		return "/" + hx(string(o))
	default:
		return o.PDFString()
	}
}

func (c *canon) dict(d types.Dict, drop map[string]bool) string {
	var p []string
	for _, k := range sortedKeys(d) {
		if drop[k] {
			continue
		}
		p = append(p, "/"+hx(k)+" "+c.obj(d[k], nil))
	}
	return "<<" + strings.Join(p, " ") + ">>"
}

// canonical lists, breadth first from Root then Info, one line per reachable object.
func canonical(ctx *model.Context) (lines []string, err error) {
	defer func() {
		if e := recover(); e != nil {
			err = fmt.Errorf("canonical: %v", e)
		}
	}()
	c := &canon{ctx: ctx, num: map[int]int{}, isInfo: -1, isRoot: -1}
	if ctx.Root == nil {
		return nil, fmt.Errorf("no root")
	}
	c.isRoot = ctx.Root.ObjectNumber.Value()
	c.lines = append(c.lines, "root="+c.ref(c.isRoot))
	if ctx.Info != nil {
		c.isInfo = ctx.Info.ObjectNumber.Value()
	}
	infoDone := false
	for i := 0; ; i++ {
		if i == len(c.queue) {
			// everything reachable from the catalog is numbered; now the info dict
			if infoDone || c.isInfo < 0 {
				break
			}
			infoDone = true
			c.lines = append(c.lines, "info="+c.ref(c.isInfo))
			if i == len(c.queue) {
				break
			}
		}
		nr := c.queue[i]
		o, err := entryObject(ctx.Table[nr])
		if err != nil {
			return nil, err
		}
		var drop map[string]bool
		if nr == c.isInfo {
			drop = infoVolatile
		}
		if nr == c.isRoot {
			drop = map[string]bool{"Version": true}
		}
		c.lines = append(c.lines, fmt.Sprintf("@%d=%s", i, c.obj(o, drop)))
	}
	return c.lines, nil
}

// ---------------------------------------------------------------- the page sequence, independently

type pageView struct {
	media, crop, rotate, resources, content, rest string
}

func (c *canon) unf(o types.Object, depth int) string {
	// numbering-free unfolding, bounded depth (for page attributes)
	if depth == 0 {
		return "~"
	}
	switch o := o.(type) {
	case nil:
		return "null"
	case types.IndirectRef:
		e, ok := c.ctx.Table[o.ObjectNumber.Value()]
		if !ok || e == nil || e.Free {
			return "null"
		}
		x, _ := entryObject(e)
		return c.unf(x, depth-1)
	case types.Array:
		p := make([]string, len(o))
		for i, e := range o {
			p[i] = c.unf(e, depth-1)
		}
		return "[" + strings.Join(p, " ") + "]"
	case types.Dict:
		var p []string
		for _, k := range sortedKeys(o) {
			if k == "Parent" || k == "P" {
				continue
			}
			p = append(p, "/"+hx(k)+" "+c.unf(o[k], depth-1))
		}
		return "<<" + strings.Join(p, " ") + ">>"
	case types.StreamDict:
		var p []string
		for _, k := range sortedKeys(o.Dict) {
			if k == "Length" {
				continue
			}
			p = append(p, "/"+hx(k)+" "+c.unf(o.Dict[k], depth-1))
		}
		return "stream<<" + strings.Join(p, " ") + ">>" + streamToken(o)
	case types.StringLiteral, types.HexLiteral:
		return "(" + strBytes(o) + ")"
	case types.Name:
		return "/" + hx(string(o))
	default:
		return o.PDFString()
	}
}

func (c *canon) deref(o types.Object) types.Object {
	for i := 0; i < 32; i++ {
		ir, ok := o.(types.IndirectRef)
		if !ok {
			return o
		}
		e, ok := c.ctx.Table[ir.ObjectNumber.Value()]
		if !ok || e == nil || e.Free {
			return nil
		}
		o, _ = entryObject(e)
	}
	return nil
}

func (c *canon) content(o types.Object) string {
	o = c.deref(o)
	switch o := o.(type) {
	case types.StreamDict:
		return streamToken(o)
	case types.Array:
		var p []string
		for _, e := range o {
			p = append(p, c.content(e))
		}
		return strings.Join(p, "+")
	case nil:
		return "none"
	}
	return "?"
}

func pageSequence(ctx *model.Context) (pages []pageView, err error) {
	defer func() {
		if e := recover(); e != nil {
			err = fmt.Errorf("pageSequence: %v", e)
		}
	}()
	c := &canon{ctx: ctx, num: map[int]int{}}
	root, _ := c.deref(*ctx.Root).(types.Dict)
	if root == nil {
		return nil, fmt.Errorf("no catalog")
	}
	type inh struct{ media, crop, rotate, res types.Object }
	var walk func(o types.Object, in inh, depth int)
	walk = func(o types.Object, in inh, depth int) {
		if depth > 64 {
			panic("page tree too deep")
		}
		d, _ := c.deref(o).(types.Dict)
		if d == nil {
			return
		}
		if v, ok := d["MediaBox"]; ok {
			in.media = v
		}
		if v, ok := d["CropBox"]; ok {
			in.crop = v
		}
		if v, ok := d["Rotate"]; ok {
			in.rotate = v
		}
		if v, ok := d["Resources"]; ok {
			in.res = v
		}
		t, _ := d["Type"].(types.Name)
		if t == "Page" {
			rest := types.Dict{}
			for k, v := range d {
				switch k {
				case "Parent", "MediaBox", "CropBox", "Rotate", "Resources", "Contents":
				default:
					rest[k] = v
				}
			}
			pages = append(pages, pageView{
				media: c.unf(in.media, 4), crop: c.unf(in.crop, 4), rotate: c.unf(in.rotate, 4),
				resources: c.unf(in.res, 7), content: c.content(d["Contents"]), rest: c.unf(rest, 6),
			})
			return
		}
		kids, _ := c.deref(d["Kids"]).(types.Array)
		for _, k := range kids {
			walk(k, in, depth+1)
		}
	}
	walk(root["Pages"], inh{}, 0)
	return pages, nil
}

// ---------------------------------------------------------------- name trees, flattened

// nameTrees lists every (tree, key, value) of the catalog's /Names trees, keys as byte values,
// values unfolded: the content of the name trees independent of their node structure.
func nameTrees(ctx *model.Context) (lines []string, err error) {
	defer func() {
		if e := recover(); e != nil {
			err = fmt.Errorf("nameTrees: %v", e)
		}
	}()
	c := &canon{ctx: ctx, num: map[int]int{}}
	root, _ := c.deref(*ctx.Root).(types.Dict)
	names, _ := c.deref(root["Names"]).(types.Dict)
	var walk func(tree string, o types.Object, depth int)
	walk = func(tree string, o types.Object, depth int) {
		if depth > 40 {
			panic("name tree too deep")
		}
		d, _ := c.deref(o).(types.Dict)
		if d == nil {
			return
		}
		if a, _ := c.deref(d["Names"]).(types.Array); a != nil {
			for i := 0; i+1 < len(a); i += 2 {
				lines = append(lines, tree+":"+strBytes(c.deref(a[i]))+"="+c.unf(a[i+1], 6))
			}
		}
		if k, _ := c.deref(d["Kids"]).(types.Array); k != nil {
			for _, e := range k {
				walk(tree, e, depth+1)
			}
		}
	}
	for _, k := range sortedKeys(names) {
		walk(k, names[k], 0)
	}
	sort.Strings(lines)
	return lines, nil
}
