package main

import (
	"fmt"
	"io"
	"os"
	"path/filepath"
	"strings"

	"github.com/pdfcpu/pdfcpu/pkg/api"
	"github.com/pdfcpu/pdfcpu/pkg/log"
	"github.com/pdfcpu/pdfcpu/pkg/pdfcpu"
	"github.com/pdfcpu/pdfcpu/pkg/pdfcpu/model"
	"github.com/pdfcpu/pdfcpu/pkg/pdfcpu/types"
	"verif/vh"
)

// (b) whole public operations on a real directory.  A logger installed through the public API
// (log.SetWriteLogger / SetCLILogger / SetOptimizeLogger / SetInfoLogger / SetStatsLogger) panics at
// its N-th call; the directory is snapshotted before and after and must be unchanged when the
// call does not return nil.

type panicLogger struct{ n, at int }

func (l *panicLogger) hit() {
	i := l.n
	l.n++
	if i == l.at {
		panic("C01: injected logger panic")
	}
}
func (l *panicLogger) Printf(string, ...interface{}) { l.hit() }
func (l *panicLogger) Println(...interface{})        { l.hit() }
func (l *panicLogger) Fatalf(string, ...interface{}) { l.hit() }
func (l *panicLogger) Fatalln(...interface{})        { l.hit() }

func install(l *panicLogger) {
	log.SetWriteLogger(l)
	log.SetCLILogger(l)
	log.SetOptimizeLogger(l)
	log.SetInfoLogger(l)
	log.SetStatsLogger(l)
}

type wholeOp struct {
	name    string // the public function
	multi   bool   // several outputs (split, cut, extract, ...)
	inplace bool   // supports outFile == "" (write back to the input)
	needOut bool   // the output must already exist (append)
	reader  bool   // the panic comes from the caller's io.Reader, not from a logger
	run     func(dir, in, in2, out string) error
}

func copyFile(src, dst string, mode os.FileMode) {
	b, err := os.ReadFile(src)
	if err != nil {
		panic(err)
	}
	if err := os.WriteFile(dst, b, 0o644); err != nil {
		panic(err)
	}
	if err := os.Chmod(dst, mode); err != nil {
		panic(err)
	}
}

func wholeOps(thorough bool) []wholeOp {
	encConf := func() *model.Configuration { return model.NewAESConfiguration("user", "owner", 256) }
	ops := []wholeOp{
		{name: "OptimizeFile", inplace: true, run: func(dir, in, in2, out string) error { return api.OptimizeFile(in, out, nil) }},
		{name: "TrimFile", inplace: true, run: func(dir, in, in2, out string) error { return api.TrimFile(in, out, []string{"1-2"}, nil) }},
		{name: "RotateFile", inplace: true, run: func(dir, in, in2, out string) error { return api.RotateFile(in, out, 90, nil, nil) }},
		{name: "AddTextWatermarksFile", inplace: true, run: func(dir, in, in2, out string) error {
			return api.AddTextWatermarksFile(in, out, nil, true, "Draft", "fo:Courier, scale:.9, op:.6", nil)
		}},
		{name: "EncryptFile", inplace: true, run: func(dir, in, in2, out string) error { return api.EncryptFile(in, out, encConf()) }},
		{name: "RemovePagesFile", inplace: true, run: func(dir, in, in2, out string) error { return api.RemovePagesFile(in, out, []string{"1"}, nil) }},
		{name: "MergeCreateFile", run: func(dir, in, in2, out string) error { return api.MergeCreateFile([]string{in, in2}, out, false, nil) }},
		{name: "MergeCreateZipFile", run: func(dir, in, in2, out string) error { return api.MergeCreateZipFile(in, in2, out, nil) }},
		{name: "MergeAppendFile", needOut: true, run: func(dir, in, in2, out string) error { return api.MergeAppendFile([]string{in, in2}, out, false, nil) }},
		{name: "WriteContextFile", run: func(dir, in, in2, out string) error {
			ctx, err := api.ReadValidateAndOptimize(mustOpen(in), model.NewDefaultConfiguration())
			if err != nil {
				return err
			}
			return api.WriteContextFile(ctx, out)
		}},
		{name: "WriteContext", run: func(dir, in, in2, out string) error {
			ctx, err := api.ReadValidateAndOptimize(mustOpen(in), model.NewDefaultConfiguration())
			if err != nil {
				return err
			}
			ctx.Write.DirName = filepath.Dir(out)
			ctx.Write.FileName = filepath.Base(out)
			return pdfcpu.WriteContext(ctx)
		}},
		{name: "WriteContext", run: func(dir, in, in2, out string) error {
			// a processing error while writing: the catalog reference dangles
			ctx, err := api.ReadValidateAndOptimize(mustOpen(in), model.NewDefaultConfiguration())
			if err != nil {
				return err
			}
			ctx.Root = types.NewIndirectRef(99999, 0)
			ctx.Write.DirName = filepath.Dir(out)
			ctx.Write.FileName = filepath.Base(out)
			return pdfcpu.WriteContext(ctx)
		}},
		{name: "CreatePDFFile", run: func(dir, in, in2, out string) error {
			ctx, err := api.ReadValidateAndOptimize(mustOpen(in), model.NewDefaultConfiguration())
			if err != nil {
				return err
			}
			return api.CreatePDFFile(ctx.XRefTable, out, model.NewDefaultConfiguration())
		}},
		{name: "WriteReader", reader: true, run: func(dir, in, in2, out string) error {
			return pdfcpu.WriteReader(out, &panicReader{data: []byte("partial data")})
		}},
		{name: "Write", reader: true, run: func(dir, in, in2, out string) error {
			_, err := pdfcpu.Write(&panicReader{data: []byte("partial data")}, out, false)
			return err
		}},
		{name: "SplitFile", multi: true, run: func(dir, in, in2, out string) error { return api.SplitFile(in, dir, 1, nil) }},
		{name: "ExtractPagesFile", multi: true, run: func(dir, in, in2, out string) error { return api.ExtractPagesFile(in, dir, nil, nil) }},
		{name: "NDownFile", multi: true, run: func(dir, in, in2, out string) error {
			return api.NDownFile(in, dir, "nd", nil, 2, &model.Cut{}, nil)
		}},
	}
	if thorough {
		ops = append(ops,
			wholeOp{name: "NUpFile", run: func(dir, in, in2, out string) error {
				nup, err := api.PDFNUpConfig(2, "", nil)
				if err != nil {
					return err
				}
				return api.NUpFile([]string{in}, out, nil, nup, nil)
			}},
			wholeOp{name: "ResizeFile", inplace: true, run: func(dir, in, in2, out string) error {
				rc, err := pdfcpu.ParseResizeConfig("sc:.5", types.POINTS)
				if err != nil {
					return err
				}
				return api.ResizeFile(in, out, nil, rc, nil)
			}},
			wholeOp{name: "DecryptFile-wrongpw", inplace: true, run: func(dir, in, in2, out string) error {
				return api.DecryptFile(in, out, model.NewAESConfiguration("x", "y", 256))
			}},
			wholeOp{name: "SplitByPageNrFile", multi: true, run: func(dir, in, in2, out string) error { return api.SplitByPageNrFile(in, dir, []int{2, 3}, nil) }},
			wholeOp{name: "PosterFile", multi: true, run: func(dir, in, in2, out string) error {
				cut, err := pdfcpu.ParseCutConfigForPoster("f:A6", types.POINTS)
				if err != nil {
					return err
				}
				return api.PosterFile(in, dir, "po", nil, cut, nil)
			}},
		)
	}
	return ops
}

// a caller-supplied reader that hands out its data and then panics (when readerPanics is set)
var readerPanics bool

type panicReader struct {
	data []byte
	done bool
}

func (p *panicReader) Read(b []byte) (int, error) {
	if !p.done {
		p.done = true
		return copy(b, p.data), nil
	}
	if readerPanics {
		panic("C01: injected reader panic")
	}
	return 0, io.EOF
}

var openedInputs []*os.File

func mustOpen(p string) io.ReadSeeker {
	f, err := os.Open(p)
	if err != nil {
		panic(err)
	}
	openedInputs = append(openedInputs, f)
	return f
}

type wholeResult struct {
	ctl    string
	before string
	after  string
	calls  int
	msg    string
}

func runWhole(r *vh.Run, n int, op wholeOp, rel string, multiPDF, smallPDF string, at int) wholeResult {
	dir := mkdir(r, "b", n)
	defer os.RemoveAll(dir)
	in := filepath.Join(dir, "in.pdf")
	in2 := filepath.Join(dir, "in2.pdf")
	out := filepath.Join(dir, "out.pdf")
	copyFile(multiPDF, in, 0o644)
	copyFile(smallPDF, in2, 0o640)
	os.WriteFile(filepath.Join(dir, "other.dat"), []byte("other"), 0o600)
	switch rel {
	case "existing":
		if op.needOut {
			copyFile(smallPDF, out, 0o600)
		} else {
			os.WriteFile(out, []byte("EXISTING OUTPUT, not a PDF"), 0o600)
			os.Chmod(out, 0o600)
		}
	case "inplace":
		out = ""
	}
	before := rawSnapshot(dir)
	l := &panicLogger{at: at}
	install(l)
	readerPanics = op.reader && at >= 0
	res := wholeResult{ctl: "ok", before: before}
	func() {
		defer func() {
			if p := recover(); p != nil {
				res.ctl = "panic"
				res.msg = fmt.Sprint(p)
			}
		}()
		if err := op.run(dir, in, in2, out); err != nil {
			res.ctl = "err"
			res.msg = err.Error()
		}
	}()
	log.DisableLoggers()
	for _, f := range openedInputs {
		f.Close()
	}
	openedInputs = nil
	res.calls = l.n
	res.after = rawSnapshot(dir)
	return res
}

// classify what a failed run left behind
func classifyWhole(op wholeOp, rel string, res wholeResult) string {
	b := map[string]string{}
	for _, e := range strings.Split(res.before, ";") {
		b[strings.SplitN(e, ":", 2)[0]] = e
	}
	staging, outChanged, newFiles, damaged := false, false, 0, false
	for _, e := range strings.Split(res.after, ";") {
		name := strings.SplitN(e, ":", 2)[0]
		old, existed := b[name]
		delete(b, name)
		switch {
		case strings.Contains(name, ".tmp-"):
			staging = true
		case name == "out.pdf" && (!existed || old != e):
			outChanged = true
		case !existed:
			newFiles++
		case old != e:
			damaged = true
		}
	}
	if len(b) > 0 {
		damaged = true // a pre-existing file disappeared
	}
	cause := "failure"
	if res.ctl == "panic" {
		cause = "panic"
	}
	switch {
	case damaged:
		return cause + "-damages-existing-file:" + op.name
	case op.multi && staging:
		return cause + "-leaks-staging:" + op.name
	case op.multi && newFiles > 0:
		return "multi-output-keeps-earlier-parts:" + op.name
	case outChanged:
		return cause + "-commits-partial:" + op.name
	case staging:
		return cause + "-leaks-staging:" + op.name
	}
	return cause + "-leaves-files:" + op.name
}

func partWholeOps(r *vh.Run) {
	repo := os.Getenv("VERIF_REPO")
	if repo == "" {
		repo = "/repo"
	}
	small := filepath.Join(repo, "pkg/testdata/test.pdf")
	if _, err := os.Stat(small); err != nil {
		panic("missing sample " + small)
	}
	setup := mkdir(r, "bsetup", 0)
	defer os.RemoveAll(setup)
	multi := filepath.Join(setup, "multi.pdf")
	if err := api.MergeCreateFile([]string{small, small, small}, multi, false, nil); err != nil {
		panic("cannot build the multi-page sample: " + err.Error())
	}
	n := 0
	for _, op := range wholeOps(r.Thorough()) {
		rels := []string{"new", "existing"}
		if op.needOut {
			rels = []string{"existing"}
		}
		if op.inplace {
			rels = append(rels, "inplace")
		}
		if op.multi {
			rels = []string{"new"}
		}
		for _, rel := range rels {
			n++
			rec := runWhole(r, n, op, rel, multi, small, -1)
			r.Count("whole:" + op.name + ":" + rel + ":record-" + rec.ctl)
			if rec.ctl == "panic" {
				r.OracleFail("operation-panics:"+op.name, map[string]any{"part": "whole", "op": op.name, "rel": rel}, rec.msg)
				continue
			}
			if rec.ctl == "err" {
				// an operation that fails by itself (wrong password, ...) is a processing-error cause
				if rec.after != rec.before {
					r.OracleFail(classifyWhole(op, rel, rec), map[string]any{"part": "whole", "op": op.name, "rel": rel, "cause": "processing error"},
						fmt.Sprintf("err=%s before=%s after=%s", rec.msg, rec.before, rec.after))
				} else {
					r.OracleOK()
				}
				continue
			}
			if op.reader {
				rec.calls = 1 // one run with the panicking reader
			}
			// panic at log-call index i
			var idx []int
			seen := map[int]bool{}
			add := func(i int) {
				if i >= 0 && i < rec.calls && !seen[i] {
					seen[i] = true
					idx = append(idx, i)
				}
			}
			if rec.calls <= 6 {
				for i := 0; i < rec.calls; i++ {
					add(i)
				}
			} else if r.Thorough() {
				// the first and last 12 log calls and 60 evenly spread ones
				for i := 0; i < 12; i++ {
					add(i)
					add(rec.calls - 1 - i)
				}
				for j := 0; j < 60; j++ {
					add(j * rec.calls / 60)
				}
			} else {
				for _, i := range []int{0, 1, rec.calls / 3, rec.calls / 2, rec.calls - 2, rec.calls - 1} {
					add(i)
				}
			}
			for _, i := range idx {
				n++
				res := runWhole(r, n, op, rel, multi, small, i)
				r.Count("whole:" + op.name + ":" + res.ctl)
				if res.ctl == "ok" {
					r.OracleOK() // the panic was not reached or was absorbed; nothing to check
					continue
				}
				if res.after != res.before {
					r.OracleFail(classifyWhole(op, rel, res), map[string]any{"part": "whole", "op": op.name, "rel": rel, "panic_at_log_call": i, "log_calls": rec.calls},
						fmt.Sprintf("result=%s (%s) before=%s after=%s", res.ctl, res.msg, res.before, res.after))
				} else {
					r.OracleOK()
				}
			}
		}
	}
}
