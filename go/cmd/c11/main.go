// Harness for C11: any PDF object pdfcpu writes parses back to the same object.
//
// Correspondence (K): the two Go printers (types.*.PDFString and appendPDFObject) against the
// model printers print_S / print_A on generated object trees; the Go parser
// (model.ParseObjectContext) against the model parser parse_top on printer outputs (with
// different continuations), on light mutations of them and on a token soup; types.Escape against
// the model escape; the harness' own wf/norm against the model's (fn "expect").
// Oracle (O): Go parse(Go print o) == norm o, for both printers, on every well-formed tree.
package main

import (
	"context"
	"errors"
	"fmt"
	"math"
	"math/big"
	"sort"
	"strconv"
	"strings"

	"github.com/pdfcpu/pdfcpu/pkg/pdfcpu"
	"github.com/pdfcpu/pdfcpu/pkg/pdfcpu/model"
	"github.com/pdfcpu/pdfcpu/pkg/pdfcpu/types"
	"verif/vh"
)

var r *vh.Run

// ---------------------------------------------------------------- term language (see ocaml/C11_glue.ml)

func hexs(s string) string { return vh.Hex([]byte(s)) }

func finite(f float64) bool { return !math.IsNaN(f) && !math.IsInf(f, 0) }

// enc encodes a tree for the model; ok=false if it contains a non-finite real.
func enc(o types.Object, sb *strings.Builder) bool {
	switch o := o.(type) {
	case nil:
		sb.WriteString("n")
	case types.Boolean:
		if o {
			sb.WriteString("t")
		} else {
			sb.WriteString("f")
		}
	case types.Integer:
		sb.WriteString("i" + vh.Int(int64(o)) + ";")
	case types.Float:
		f := float64(o)
		if !finite(f) {
			return false
		}
		s := strconv.FormatFloat(f, 'f', 12, 64)
		neg := "0"
		if strings.HasPrefix(s, "-") {
			neg = "1"
			s = s[1:]
		}
		m, ok := new(big.Int).SetString(strings.Replace(s, ".", "", 1), 10)
		if !ok {
			panic("float text " + s)
		}
		sb.WriteString("r" + neg + m.Text(16) + ";")
	case types.Name:
		sb.WriteString("N" + hexs(string(o)) + ";")
	case types.StringLiteral:
		sb.WriteString("S" + hexs(string(o)) + ";")
	case types.HexLiteral:
		sb.WriteString("H" + hexs(string(o)) + ";")
	case types.IndirectRef:
		sb.WriteString("p" + vh.Int(int64(o.ObjectNumber)) + "," + vh.Int(int64(o.GenerationNumber)) + ";")
	case types.Array:
		sb.WriteString("[")
		for _, e := range o {
			if !enc(e, sb) {
				return false
			}
		}
		sb.WriteString("]")
	case types.Dict:
		sb.WriteString("{")
		for _, k := range sortedKeys(o) {
			sb.WriteString("K" + hexs(k) + ";")
			if !enc(o[k], sb) {
				return false
			}
		}
		sb.WriteString("}")
	default:
		panic(fmt.Sprintf("enc: %T", o))
	}
	return true
}

func sortedKeys(d types.Dict) []string {
	keys := make([]string, 0, len(d))
	for k := range d {
		keys = append(keys, k)
	}
	sort.Strings(keys)
	return keys
}

// canon writes the canonical text of a parsed object (norm=false) or of what a written object is
// expected to read back as (norm=true: hex literals upper-cased and padded, null entries dropped).
func canon(o types.Object, norm bool, sb *strings.Builder) {
	switch o := o.(type) {
	case nil:
		sb.WriteString("n")
	case types.Boolean:
		if o {
			sb.WriteString("t")
		} else {
			sb.WriteString("f")
		}
	case types.Integer:
		sb.WriteString("i" + vh.Int(int64(o)) + ";")
	case types.Float:
		sb.WriteString("R" + strconv.FormatFloat(float64(o), 'f', 12, 64) + ";")
	case types.Name:
		sb.WriteString("N" + hexs(string(o)) + ";")
	case types.StringLiteral:
		sb.WriteString("S" + hexs(string(o)) + ";")
	case types.HexLiteral:
		s := string(o)
		if norm {
			s = strings.ToUpper(s)
			if len(s)%2 == 1 {
				s += "0"
			}
		}
		sb.WriteString("H" + hexs(s) + ";")
	case types.IndirectRef:
		sb.WriteString("p" + vh.Int(int64(o.ObjectNumber)) + "," + vh.Int(int64(o.GenerationNumber)) + ";")
	case types.Array:
		sb.WriteString("[")
		for _, e := range o {
			canon(e, norm, sb)
		}
		sb.WriteString("]")
	case types.Dict:
		sb.WriteString("{")
		for _, k := range sortedKeys(o) {
			if norm && o[k] == nil {
				continue
			}
			sb.WriteString("K" + hexs(k) + ";")
			canon(o[k], norm, sb)
		}
		sb.WriteString("}")
	default:
		sb.WriteString(fmt.Sprintf("?%T", o))
	}
}

func canonS(o types.Object, norm bool) string {
	var sb strings.Builder
	canon(o, norm, &sb)
	return sb.String()
}

// ---------------------------------------------------------------- well-formedness (the property's domain)

// balanced: independent statement of "the literal's closing parenthesis is the one written last".
func balanced(s string) bool {
	j, esc := 1, false
	for i := 0; i < len(s); i++ {
		c := s[i]
		switch {
		case esc:
			esc = false
		case c == '\\':
			esc = true
		case c == '(':
			j++
		case c == ')':
			j--
			if j == 0 {
				return false
			}
		}
	}
	return !esc && j == 1
}

func isHex(s string) bool {
	for i := 0; i < len(s); i++ {
		c := s[i]
		if !(c >= '0' && c <= '9' || c >= 'a' && c <= 'f' || c >= 'A' && c <= 'F') {
			return false
		}
	}
	return true
}

func depthOf(o types.Object) int {
	switch o := o.(type) {
	case types.Array:
		m := 0
		for _, e := range o {
			if d := depthOf(e); d > m {
				m = d
			}
		}
		return 1 + m
	case types.Dict:
		m := 0
		for _, e := range o {
			if d := depthOf(e); d > m {
				m = d
			}
		}
		return 1 + m
	}
	return 0
}

func wfLeafOrTree(o types.Object) bool {
	switch o := o.(type) {
	case types.Float:
		return finite(float64(o))
	case types.Name:
		return !strings.Contains(string(o), "\x00")
	case types.StringLiteral:
		return balanced(string(o))
	case types.HexLiteral:
		return isHex(string(o))
	case types.Array:
		for _, e := range o {
			if !wfLeafOrTree(e) {
				return false
			}
		}
	case types.Dict:
		for k, e := range o {
			if strings.Contains(k, "\x00") || !wfLeafOrTree(e) {
				return false
			}
		}
	}
	return true
}

func residue(o types.Object) string {
	if n, ok := o.(types.Name); ok && len(n) == 0 {
		return " "
	}
	return ""
}

func kind(o types.Object) string {
	switch o.(type) {
	case nil:
		return "null"
	case types.Boolean:
		return "bool"
	case types.Integer:
		return "int"
	case types.Float:
		return "real"
	case types.Name:
		return "name"
	case types.StringLiteral:
		return "strlit"
	case types.HexLiteral:
		return "hexlit"
	case types.IndirectRef:
		return "ref"
	case types.Array:
		return "array"
	case types.Dict:
		return "dict"
	}
	return "other"
}

// ---------------------------------------------------------------- generators

func pick(l []string) string { return l[r.Rand.Intn(len(l))] }

var nameBits = []string{"", "A", "Type", "F1", "R", "null", "true", "1", "0", "-", ".", "#", "##", "#41", "#4", "#zz", " ", "/", "(", ")", "<", ">", "[", "]",
	"{", "}", "%", "\t", "\n", "\r", "\x0c", "\x0b", "~", "!", "\x7f", "\x80", "\xff", "\xc2\x85", "\xc2\xa0", "\xe2\x80\x80", "\xe3\x80\x80", "\xe4\xb8\xad", "\xc3", "é", "inf", "a b"}

func genName() string {
	switch r.Rand.Intn(10) {
	case 0:
		return ""
	case 1:
		return pick(nameBits)
	case 2: // single arbitrary byte (non-NUL mostly)
		b := byte(r.Rand.Intn(256))
		if b == 0 && r.Rand.Intn(4) != 0 {
			b = 1
		}
		return string([]byte{b})
	default:
		n := 1 + r.Rand.Intn(4)
		var sb strings.Builder
		for i := 0; i < n; i++ {
			if r.Rand.Intn(3) == 0 {
				sb.WriteString(pick(nameBits))
			} else {
				sb.WriteByte(byte('A' + r.Rand.Intn(58)))
			}
		}
		return sb.String()
	}
}

var strBits = []string{"", "a", "R", "(", ")", "()", "(a(b)c)", "\\", "\\\\", "\\(", "\\)", "\\n", "\\053", "\n", "\r", "\t", "\x00", "\x80", "\xff", "é",
	"<", ">", "[", "]", "/", "%", " ", ")(", "\\\\)", "1 0 R", "\xc2\x85", "\b", "\f"}

func genRaw() string {
	n := r.Rand.Intn(5)
	var sb strings.Builder
	for i := 0; i < n; i++ {
		if r.Rand.Intn(4) == 0 {
			sb.WriteByte(byte(r.Rand.Intn(256)))
		} else {
			sb.WriteString(pick(strBits))
		}
	}
	return sb.String()
}

func genStr() types.StringLiteral {
	raw := genRaw()
	if r.Rand.Intn(5) == 0 {
		// raw content, possibly unbalanced (outside the property's domain unless balanced)
		return types.StringLiteral(raw)
	}
	e, err := types.Escape(raw)
	if err != nil {
		return types.StringLiteral("")
	}
	return types.StringLiteral(*e)
}

func genHex() types.HexLiteral {
	switch r.Rand.Intn(8) {
	case 0:
		return types.HexLiteral("")
	case 1:
		return types.HexLiteral(pick([]string{"a", "A", "abc", "0", "fF0", "4e6F", "zz", "4 1", " 41", "41 ", "4\n1", "g", "\xc2\x85", "4\x0b1", "\x0b41"}))
	default:
		b := make([]byte, r.Rand.Intn(5))
		r.Rand.Read(b)
		if r.Rand.Intn(2) == 0 {
			return types.NewHexLiteral(b)
		}
		return types.HexLiteral(strings.ToUpper(vh.Hex(b)))
	}
}

var intsB = []int64{0, 1, -1, 9, 10, 11, 99, 100, 255, 65535, 1 << 31, 1<<31 - 1, -(1 << 31), 1 << 32, 999999999999999999, 1000000000000000000,
	math.MaxInt64, math.MaxInt64 - 1, math.MinInt64, math.MinInt64 + 1, 1844674407370955161, 1844674407370955162, 922337203685477580}

func genInt() int64 {
	switch r.Rand.Intn(4) {
	case 0:
		return intsB[r.Rand.Intn(len(intsB))]
	case 1:
		return int64(r.Rand.Intn(20)) - 5
	case 2:
		return r.Rand.Int63() >> uint(r.Rand.Intn(63))
	default:
		return -(r.Rand.Int63() >> uint(r.Rand.Intn(63)))
	}
}

var floatsB = []float64{0, math.Copysign(0, -1), 1, -1, 0.5, 1.5, -2.25, 1e-12, 4e-13, 5e-13, 6e-13, -4e-13, -1e-20, 1e-13, 0.1, 0.2, 0.3, 1.0 / 3, 2.0 / 3,
	123456.789, 1e12, 1e15, 1e16, 9007199254740992, 9007199254740993, 1 << 62, 9223372036854775807, 9223372036854775808, 1e19, 1.8446744073709552e19, 1e20, -1e20, 1e23, 1e100, 1e300,
	math.MaxFloat64, -math.MaxFloat64, math.SmallestNonzeroFloat64, 0.999999999999, 0.9999999999995, 0.99999999999951, 999999999999.9999, 1099511627776.0000001, 0.000001}

func genFloat() float64 {
	switch r.Rand.Intn(6) {
	case 0:
		return floatsB[r.Rand.Intn(len(floatsB))]
	case 1:
		return float64(r.Rand.Intn(2000)-1000) / 100
	case 2: // across magnitudes
		f := (r.Rand.Float64()*2 - 1) * math.Pow(10, float64(r.Rand.Intn(330)-20))
		if !finite(f) {
			return 1
		}
		return f
	case 3: // around 2^63 and the integer range boundaries
		return float64(int64(1)<<uint(50+r.Rand.Intn(14))) * (1 + r.Rand.Float64())
	case 4: // random bit patterns
		f := math.Float64frombits(r.Rand.Uint64())
		if !finite(f) {
			return -1
		}
		return f
	default:
		return r.Rand.NormFloat64() * math.Pow(10, float64(r.Rand.Intn(14)))
	}
}

func genLeaf() types.Object {
	switch r.Rand.Intn(9) {
	case 0:
		return nil
	case 1:
		return types.Boolean(r.Rand.Intn(2) == 0)
	case 2, 3:
		return types.Integer(genInt())
	case 4:
		return types.Float(genFloat())
	case 5:
		return types.Name(genName())
	case 6:
		return genStr()
	case 7:
		return genHex()
	default:
		return *types.NewIndirectRef(int(genInt()), int(genInt()))
	}
}

func genTree(d int) types.Object {
	if d <= 0 || r.Rand.Intn(3) == 0 {
		return genLeaf()
	}
	n := r.Rand.Intn(5)
	if r.Rand.Intn(2) == 0 {
		a := types.Array{}
		for i := 0; i < n; i++ {
			a = append(a, genTree(d-1))
		}
		return a
	}
	dct := types.NewDict()
	for i := 0; i < n; i++ {
		dct[genName()] = genTree(d - 1)
	}
	return dct
}

// one leaf of every kind (for the exhaustive adjacency tables)
func leafKinds() []types.Object {
	return []types.Object{nil, types.Boolean(true), types.Boolean(false), types.Integer(1), types.Integer(-7), types.Integer(0), types.Float(2.5), types.Float(-0.25), types.Float(1e20),
		types.Name("R"), types.Name(""), types.Name("A B"), types.StringLiteral("R"), types.StringLiteral(""), types.HexLiteral("52"), types.HexLiteral(""),
		*types.NewIndirectRef(1, 0), *types.NewIndirectRef(-3, 65535), types.Array{}, types.Array{types.Integer(0)}, types.NewDict(), types.Dict{"R": types.Integer(1)}}
}

// ---------------------------------------------------------------- running the implementation

func goPrintS(o types.Object) (s string, ok bool) {
	defer func() {
		if e := recover(); e != nil {
			s, ok = fmt.Sprint("panic:", e), false
		}
	}()
	if o == nil {
		return "null", true // a nil Object has no method; both container printers write "null" for it
	}
	return o.PDFString(), true
}

func goPrintA(o types.Object) (s string, ok bool) {
	defer func() {
		if e := recover(); e != nil {
			s, ok = fmt.Sprint("panic:", e), false
		}
	}()
	b, err := pdfcpu.VerifC11AppendPDFObject(nil, o)
	if err != nil {
		return "err:" + err.Error(), false
	}
	return string(b), true
}

type pres struct {
	obj  types.Object
	rest string
	res  string // canonical result line
	ok   bool
}

func goParse(in string, maxd, level int) (p pres) {
	defer func() {
		if e := recover(); e != nil {
			p = pres{res: "panic", ok: false}
			r.OracleFail("parse-panic", map[string]any{"input_hex": hexs(in), "maxDepth": maxd, "level": level}, fmt.Sprint(e))
		}
	}()
	s := in
	var o types.Object
	var err error
	if maxd == 0 && level == 0 {
		o, err = model.ParseObject(&s)
	} else {
		o, err = model.ParseObjectContext(context.Background(), &s, level, maxd)
	}
	if err != nil {
		if errors.Is(err, model.ErrMaxRecursionDepthExceeded) {
			return pres{res: "errdepth"}
		}
		return pres{res: "err"}
	}
	return pres{obj: o, rest: s, res: "ok:" + canonS(o, false) + "|" + hexs(s), ok: true}
}

// inputs whose numeric tokens may use syntax the model of strconv.ParseFloat leaves out
func unmodelled(in string) bool {
	l := strings.ToLower(in)
	return strings.Contains(l, "0x") || strings.Contains(l, "inf") || strings.Contains(l, "nan")
}

func hasNonFinite(o types.Object) bool {
	switch o := o.(type) {
	case types.Float:
		return !finite(float64(o))
	case types.Array:
		for _, e := range o {
			if hasNonFinite(e) {
				return true
			}
		}
	case types.Dict:
		for _, e := range o {
			if hasNonFinite(e) {
				return true
			}
		}
	}
	return false
}

func caseParse(in string, maxd, level int) pres {
	p := goParse(in, maxd, level)
	if unmodelled(in) || (p.ok && hasNonFinite(p.obj)) {
		r.Count("parse:skipped-unmodelled-float-syntax")
		return p
	}
	r.Case("parse", []string{hexs(in), vh.Int(int64(maxd)), vh.Int(int64(level))}, p.res)
	return p
}

var suffixes = []string{"", "", "]", ">>", "/N", " ", "\n", "(x)", "<41>", "[", " 0 R", " 5", "\r\nendobj", "%c\n 0 R", " R", ")", "x", "R", "\x00", "\xc2\x85 0 R"}

// follows is the harness' statement of the theorem's side condition on what comes behind the object:
// empty, or a delimiter other than ')'.
func simpleFollow(sfx string) bool {
	return sfx == "" || strings.ContainsRune("/<([]>", rune(sfx[0]))
}

// roundTrip evaluates the property on the implementation for one printer output.
func roundTrip(o types.Object, printed, sfx, which string) bool {
	p := goParse(printed+sfx, 0, 0)
	want := canonS(o, true)
	if !p.ok {
		return false
	}
	return canonS(p.obj, false) == want && p.rest == residue(o)+sfx
}

// smallest failing sub-object gives the class
func failClass(o types.Object, which string, pr func(types.Object) (string, bool)) string {
	switch t := o.(type) {
	case types.Array:
		for _, e := range t {
			if s, ok := pr(e); ok && !roundTrip(e, s, "", which) {
				return failClass(e, which, pr)
			}
		}
		return "array-adjacency"
	case types.Dict:
		for _, e := range t {
			if s, ok := pr(e); ok && !roundTrip(e, s, "", which) {
				return failClass(e, which, pr)
			}
		}
		return "dict-entry"
	}
	return kind(o)
}

func doTree(o types.Object, mutate int) {
	var sb strings.Builder
	if !enc(o, &sb) {
		return
	}
	t := sb.String()
	ps, okS := goPrintS(o)
	pa, okA := goPrintA(o)
	r.Case("print", []string{t}, hexs(ps))
	r.Case("printA", []string{t}, hexs(pa))
	r.Count("tree:" + kind(o))

	wf := wfLeafOrTree(o) && depthOf(o) <= 100
	exp := "nowf"
	if wf {
		exp = "wf:" + canonS(o, true) + "|" + hexs(residue(o))
		r.Count("tree-wf")
	} else {
		r.Count("tree-outside-domain")
	}
	r.Case("expect", []string{t}, exp)

	if !okS || !okA {
		r.OracleFail("print-failed", map[string]any{"tree": t}, ps+" / "+pa)
		return
	}
	if wf {
		if ps != pa {
			r.OracleFail("printers-differ", map[string]any{"tree": t}, fmt.Sprintf("PDFString=%q append=%q", ps, pa))
		} else {
			r.OracleOK()
		}
		for _, pp := range []struct {
			which string
			s     string
			f     func(types.Object) (string, bool)
		}{{"PDFString", ps, goPrintS}, {"append", pa, goPrintA}} {
			for _, sfx := range []string{"", "]", ">>", "/N"} {
				if roundTrip(o, pp.s, sfx, pp.which) {
					r.OracleOK()
				} else {
					p := goParse(pp.s+sfx, 0, 0)
					r.OracleFail("roundtrip:"+failClass(o, pp.which, pp.f), map[string]any{"tree": t, "printer": pp.which, "written_hex": hexs(pp.s), "suffix": sfx},
						fmt.Sprintf("written %q read back %s want %s rest %q", pp.s, p.res, canonS(o, true), residue(o)+sfx))
					break
				}
			}
		}
	}

	// parser correspondence on the written text with different continuations
	caseParse(ps, 0, 0)
	for i := 0; i < 2; i++ {
		caseParse(ps+pick(suffixes), 0, 0)
	}
	if d := depthOf(o); d > 0 && r.Rand.Intn(3) == 0 {
		caseParse(ps, d-1+r.Rand.Intn(3), r.Rand.Intn(2))
	}
	// light mutations
	for i := 0; i < mutate; i++ {
		caseParse(mutateStr(ps+pick(suffixes)), 0, 0)
	}
}

var insBytes = []byte("[]<>()/%# \n\r\t\x00\\R0123456789.-+eE_,nulltrefas\x0c\x0b\xc2\x85\xa0\xe2\x80")

func mutateStr(s string) string {
	b := []byte(s)
	n := 1 + r.Rand.Intn(2)
	for k := 0; k < n; k++ {
		switch op := r.Rand.Intn(6); {
		case len(b) == 0 || op == 0 || op == 1: // insert
			c := insBytes[r.Rand.Intn(len(insBytes))]
			if r.Rand.Intn(6) == 0 {
				c = byte(r.Rand.Intn(256))
			}
			i := r.Rand.Intn(len(b) + 1)
			b = append(b[:i], append([]byte{c}, b[i:]...)...)
		case op == 2 || op == 3: // delete
			i := r.Rand.Intn(len(b))
			b = append(b[:i], b[i+1:]...)
		case op == 4: // replace
			b[r.Rand.Intn(len(b))] = insBytes[r.Rand.Intn(len(insBytes))]
		default: // truncate
			b = b[:r.Rand.Intn(len(b)+1)]
		}
	}
	return string(b)
}

var soup = []string{"[", "]", "<<", ">>", "<", ">", "/", "/A", "/B#41", "/#00", "/#4", "1", "0", "12", "-3", "R", " ", "  ", "\n", "\r", "\r\n", "%c\n", "%", "(", ")", "(a)", "(\\)", "\\",
	"null", "true", "false", "NULL", "True", "nul", "-", ".", "1.5", ".5", "5.", "+", "+1", "--1", "0-1", "0.00-1", "0.0+2", "00", "007", "1e3", "1E-2", "1e", "1_0", "_1", "1_", "1__0", "1.5e400", "1e-400", ",", "1,5", ".-5", "1.-5",
	"99999999999999999999", "9223372036854775807", "9223372036854775808", "-9223372036854775808", "-9223372036854775809", "18446744073709551615", "18446744073709551616", "99999999999999999999.5", "99999999999999999999x",
	"\x00", "\xc2\x85", "\xc2\xa0", "\xe2\x80\x80", "\xe2\x80\xa8", "\xe1\x9a\x80", "\xe3\x80\x80", "\xe2\x81\x9f", "\xc2", "\xe2\x80", "\xff", "\t", "\f", "\v", "<41>", "<4 1>", "<4>", "<zz>", "< 41 >", "<\xc2\x85>", "<>", "x", "#"}

func genSoup() string {
	n := 1 + r.Rand.Intn(8)
	var sb strings.Builder
	for i := 0; i < n; i++ {
		sb.WriteString(pick(soup))
		if r.Rand.Intn(3) == 0 {
			sb.WriteString(" ")
		}
	}
	return sb.String()
}

func chain(open, close string, n int, inner string) string {
	return strings.Repeat(open, n) + inner + strings.Repeat(close, n)
}

func main() {
	r = vh.Start("C11")
	defer r.Finish()

	// every leaf kind alone, with every continuation
	leaves := leafKinds()
	for _, l := range leaves {
		doTree(l, 2)
		if s, ok := goPrintS(l); ok {
			for _, sfx := range suffixes {
				p := caseParse(s+sfx, 0, 0)
				if simpleFollow(sfx) && wfLeafOrTree(l) {
					if p.ok && canonS(p.obj, false) == canonS(l, true) && p.rest == residue(l)+sfx {
						r.OracleOK()
					} else {
						r.OracleFail("roundtrip:"+kind(l), map[string]any{"written_hex": hexs(s), "suffix": sfx}, "read back "+p.res)
					}
				}
			}
		}
	}
	// every adjacent pair / triple of kinds in an array, every kind as a dict value next to another
	for _, a := range leaves {
		for _, b := range leaves {
			doTree(types.Array{a, b}, 0)
			doTree(types.Dict{"A": a, "B": b}, 0)
			doTree(types.Dict{"": a, "A#": b}, 0)
			if r.Thorough() || r.Rand.Intn(4) == 0 {
				for _, c := range leaves {
					if r.Thorough() || r.Rand.Intn(6) == 0 {
						doTree(types.Array{a, b, c}, 0)
					}
				}
			}
		}
	}
	// boundary integers and reals
	for _, v := range intsB {
		doTree(types.Integer(v), 1)
		doTree(*types.NewIndirectRef(int(v), int(-v)), 1)
		doTree(types.Array{types.Integer(v), types.Integer(v)}, 0)
	}
	for _, f := range floatsB {
		doTree(types.Float(f), 2)
		doTree(types.Array{types.Integer(3), types.Float(f), types.Integer(0), types.Name("R")}, 0)
	}
	// every single byte as a name and as a dict key
	for c := 0; c < 256; c++ {
		doTree(types.Name(string([]byte{byte(c)})), 0)
		doTree(types.Dict{string([]byte{byte(c), 'x'}): types.Integer(1)}, 0)
		doTree(types.Array{types.Name(string([]byte{'a', byte(c)})), types.Integer(1)}, 0)
	}
	// escape
	for i := 0; i < r.Pick(300, 3000); i++ {
		raw := genRaw()
		e, err := types.Escape(raw)
		if err != nil {
			r.Case("escape", []string{hexs(raw)}, "err")
			continue
		}
		r.Case("escape", []string{hexs(raw)}, hexs(*e))
		if balanced(*e) {
			r.OracleOK()
		} else {
			r.OracleFail("escape-output-unbalanced", map[string]any{"raw_hex": hexs(raw)}, *e)
		}
	}
	// nesting depth around the limit (default 100) and with explicit small limits
	for _, n := range []int{1, 2, 50, 99, 100, 101, 102, 150} {
		for _, in := range []string{chain("[", "]", n, ""), chain("[", "]", n, "1"), chain("<</A", ">>", n, "1"), chain("<</A", ">>", n, "<<>>"), chain("[<</K", ">>]", n/2+1, "(x)")} {
			caseParse(in, 0, 0)
		}
		var o types.Object = types.Integer(7)
		for i := 0; i < n; i++ {
			if i%3 == 2 {
				o = types.Dict{"K": o}
			} else {
				o = types.Array{o}
			}
		}
		if n <= 102 {
			doTree(o, 1)
		}
	}
	for maxd := -1; maxd <= 4; maxd++ {
		for level := 0; level <= 3; level++ {
			for n := 0; n <= 5; n++ {
				caseParse(chain("[", "]", n, "1"), maxd, level)
				caseParse(chain("<</A", ">>", n, "(s)"), maxd, level)
				caseParse(chain("[", "", n, "1"), maxd, level) // unterminated: strict fails, relaxed re-run
			}
		}
	}
	// random trees
	nt := r.Pick(2500, 40000)
	for i := 0; i < nt; i++ {
		doTree(genTree(1+r.Rand.Intn(4)), 3)
	}
	// token soup
	ns := r.Pick(4000, 60000)
	for i := 0; i < ns; i++ {
		caseParse(genSoup(), 0, 0)
		r.Count("soup")
	}
}
