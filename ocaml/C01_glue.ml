(* C01 glue: requests from go/cmd/c01 -> extracted protocol runs -> canonical result string.
   Paths are positives printed in hex; a path that is neither in the initial filesystem nor named in
   the request is a staging/temp file and printed as T.  Result: <ctl>|<trace>|<final filesystem>. *)
open Model
open Common

let pos_of_hex_exn s = match pos_of_hex s with Some p -> p | None -> failwith ("bad path " ^ s)
let opt_path s = if s = "-" then None else Some (pos_of_hex_exn s)
let path_list s = if s = "" then [] else List.map pos_of_hex_exn (String.split_on_char ',' s)
let fault s = if s = "-" then None else Some (nat_of_int (int_of_string ("0x" ^ s)))
let key_of = function "flag" -> KFlag | "err" -> KErr | "none" -> KNone | s -> failwith ("bad key " ^ s)
let ctl_of = function "ok" -> COk | "err" -> CErr | "panic" -> CPanic | s -> failwith ("bad ctl " ^ s)
let str_of_ctl = function COk -> "ok" | CErr -> "err" | CPanic -> "panic"

(* p:mode:hexdata;... *)
let fs_of_string s =
  if s = "" then [] else
  List.map (fun e -> match String.split_on_char ':' e with
    | [p; md; d] -> (pos_of_hex_exn p, { fdata = bytes_of_hex d; fmode = n_of_hex md })
    | _ -> failwith ("bad fs entry " ^ e)) (String.split_on_char ';' s)
let chunks_of_string s =
  if s = "" then [] else List.map (fun c -> if c = "." then [] else bytes_of_hex c) (String.split_on_char ',' s)

let rec pos_cmp a b = compare (int_of_pos a) (int_of_pos b)

let name known p = if List.exists (fun q -> q = p) known then hex_of_pos p else "T"

let str_of_res = function None -> "ok" | Some EIO -> "eio" | Some EEXIST -> "eexist" | Some ENOENT -> "enoent"
let str_of_op = function
  | OpOpenRd -> "openrd" | OpOpenExcl -> "openx" | OpCreateTemp -> "mktemp" | OpStat -> "stat"
  | OpChmod -> "chmod" | OpWrite -> "write" | OpClose -> "close" | OpRename -> "rename" | OpRemove -> "remove"

let str_of_event known e =
  let args = match e.ev_op with
    | OpRename -> name known e.ev_p ^ "," ^ name known e.ev_q
    | OpCreateTemp -> "T"
    | _ -> name known e.ev_p in
  str_of_op e.ev_op ^ "(" ^ args ^ ")=" ^ str_of_res e.ev_res

let str_of_fs known m =
  let l = List.sort (fun (a, _) (b, _) -> compare (name known a, int_of_pos a) (name known b, int_of_pos b)) (fs_to_list m) in
  String.concat ";" (List.map (fun (p, f) -> name known p ^ ":" ^ hex_of_n f.fmode ^ ":" ^ hex_of_bytes f.fdata) l)

let render known (r, w) =
  str_of_ctl r ^ "|" ^ String.concat ";" (List.rev_map (str_of_event known) w.wtr) ^ "|" ^ str_of_fs known w.wfs

let known_of init ins inF outF =
  List.map fst init @ ins @ (match inF with Some p -> [p] | None -> []) @ (match outF with Some p -> [p] | None -> []) @ [XH]

let dispatch fn args = match fn, args with
  | "api", [flt; k; ins; inF; outF; init; chunks; fin] ->
    let ins = path_list ins and inF = opt_path inF and outF = opt_path outF and init = fs_of_string init in
    render (known_of init ins inF outF)
      (run_api (fault flt) (key_of k) ins inF outF init (chunks_of_string chunks) (ctl_of fin))
  | "pdf", [flt; k; input; path; init; chunks; fin] ->
    let input = opt_path input and path = pos_of_hex_exn path and init = fs_of_string init in
    let known = known_of init [] input (Some path) in
    let (r, w) = run_pdf (fault flt) (key_of k) input path init (chunks_of_string chunks) (ctl_of fin) in
    str_of_ctl r ^ "|" ^ str_of_fs known w.wfs
  | _ -> failwith ("unknown function " ^ fn)
let () = main dispatch
