(* C35 — order on strings, sorted sets and sorted maps (the Go maps of the context, listed sorted). *)
From Coq Require Import NArith List Bool Lia.
From PV Require Import C35.Model.
Import ListNotations.
Open Scope N_scope.

Lemma seqb_eq : forall a b, seqb a b = true <-> a = b.
Proof.
  induction a as [|x a IH]; intros [|y b]; simpl; split; intros H; try reflexivity; try discriminate.
  - apply andb_true_iff in H as [H1 H2]. apply N.eqb_eq in H1. apply IH in H2. now subst.
  - inversion H; subst. rewrite N.eqb_refl. simpl. now apply IH.
Qed.

Lemma seqb_refl : forall a, seqb a a = true.
Proof. intros a. now apply seqb_eq. Qed.

Lemma seqb_neq : forall a b, seqb a b = false <-> a <> b.
Proof.
  intros a b. split; intros H.
  - intros E. apply seqb_eq in E. congruence.
  - destruct (seqb a b) eqn:E; [apply seqb_eq in E; contradiction|reflexivity].
Qed.

Lemma seqb_sym : forall a b, seqb a b = seqb b a.
Proof.
  intros a b. destruct (seqb a b) eqn:E.
  - apply seqb_eq in E. subst. now rewrite seqb_refl.
  - symmetry. apply seqb_neq. apply seqb_neq in E. congruence.
Qed.

Lemma sltb_irrefl : forall a, sltb a a = false.
Proof.
  induction a as [|x a IH]; simpl; [reflexivity|].
  rewrite N.ltb_irrefl, N.eqb_refl, IH. reflexivity.
Qed.

Lemma sltb_trans : forall a b c, sltb a b = true -> sltb b c = true -> sltb a c = true.
Proof.
  induction a as [|x a IH]; intros [|y b] [|z c]; simpl; intros H1 H2; try discriminate; try reflexivity.
  apply orb_true_iff in H1. apply orb_true_iff in H2. apply orb_true_iff.
  destruct H1 as [H1|H1]; destruct H2 as [H2|H2].
  - left. apply N.ltb_lt in H1, H2. apply N.ltb_lt. lia.
  - apply andb_true_iff in H2 as [H2 _]. apply N.eqb_eq in H2. subst. now left.
  - apply andb_true_iff in H1 as [H1 _]. apply N.eqb_eq in H1. subst. now left.
  - apply andb_true_iff in H1 as [H1 H1']. apply andb_true_iff in H2 as [H2 H2'].
    apply N.eqb_eq in H1, H2. subst. right. rewrite N.eqb_refl. simpl. eapply IH; eauto.
Qed.

Lemma sltb_total : forall a b, sltb a b = false -> seqb a b = false -> sltb b a = true.
Proof.
  induction a as [|x a IH]; intros [|y b]; simpl; intros H1 H2; try discriminate; try reflexivity.
  apply orb_false_iff in H1 as [H1 H1'].
  apply N.ltb_ge in H1.
  destruct (x =? y) eqn:E.
  - apply N.eqb_eq in E. subst. simpl in *. rewrite N.ltb_irrefl, N.eqb_refl. simpl. now apply IH.
  - apply N.eqb_neq in E. apply orb_true_iff. left. apply N.ltb_lt. lia.
Qed.

Lemma sltb_neq : forall a b, sltb a b = true -> seqb a b = false.
Proof.
  intros a b H. apply seqb_neq. intros ->. rewrite sltb_irrefl in H. discriminate.
Qed.

Lemma sltb_asym : forall a b, sltb a b = true -> sltb b a = false.
Proof.
  intros a b H. destruct (sltb b a) eqn:E; [|reflexivity].
  pose proof (sltb_trans _ _ _ H E) as T. rewrite sltb_irrefl in T. discriminate.
Qed.

(* ------------------------------------------------------------ sorted sets *)
Fixpoint ssorted (l : list str) : Prop :=
  match l with [] => True | x :: r => Forall (fun y => sltb x y = true) r /\ ssorted r end.

Lemma smem_In : forall k l, smem k l = true <-> In k l.
Proof.
  intros k l. unfold smem. rewrite existsb_exists. split.
  - intros [x [Hx E]]. apply seqb_eq in E. now subst.
  - intros H. exists k. split; [assumption|apply seqb_refl].
Qed.

Lemma set_ins_In : forall k l x, In x (set_ins k l) <-> x = k \/ In x l.
Proof.
  intros k l x. induction l as [|y r IH]; simpl.
  - intuition (subst; auto).
  - destruct (seqb k y) eqn:E.
    + apply seqb_eq in E. subst. simpl. intuition (subst; auto).
    + destruct (sltb k y); simpl; [intuition (subst; auto)|]. rewrite IH. intuition (subst; auto).
Qed.

Lemma set_ins_sorted : forall k l, ssorted l -> ssorted (set_ins k l).
Proof.
  intros k l. induction l as [|y r IH]; simpl; intros H.
  - split; [constructor|exact I].
  - destruct H as [Hy Hr]. destruct (seqb k y) eqn:E; [simpl; auto|].
    destruct (sltb k y) eqn:L.
    + simpl. split; [|split; assumption]. constructor; [assumption|].
      eapply Forall_impl; [|exact Hy]. intros z Hz. simpl in Hz. eapply sltb_trans; eauto.
    + simpl. split; [|now apply IH].
      apply Forall_forall. intros z Hz. apply set_ins_In in Hz as [->|Hz].
      * apply sltb_total; assumption.
      * rewrite Forall_forall in Hy. now apply Hy.
Qed.

Lemma set_ins_Forall : forall (P : str -> Prop) k l, P k -> Forall P l -> Forall P (set_ins k l).
Proof.
  intros P k l Hk Hl. apply Forall_forall. intros x Hx. apply set_ins_In in Hx as [->|Hx]; [assumption|].
  rewrite Forall_forall in Hl. now apply Hl.
Qed.

Lemma set_ins_last : forall k l, Forall (fun y => sltb y k = true) l -> set_ins k l = l ++ [k].
Proof.
  intros k l. induction l as [|y r IH]; simpl; intros H; [reflexivity|].
  inversion H as [|? ? Hy Hr]; subst.
  rewrite seqb_sym, (sltb_neq _ _ Hy), (sltb_asym _ _ Hy). now rewrite IH.
Qed.

Lemma ssorted_app_lt : forall a k r, ssorted (a ++ k :: r) -> Forall (fun y => sltb y k = true) a.
Proof.
  induction a as [|x a IH]; simpl; intros k r H; [constructor|].
  destruct H as [Hx Ha]. constructor.
  - rewrite Forall_forall in Hx. apply Hx. apply in_or_app. right. now left.
  - eapply IH; eauto.
Qed.

Lemma fold_ins_sorted_app : forall ks acc, ssorted (acc ++ ks) ->
  fold_left (fun a k => set_ins k a) ks acc = acc ++ ks.
Proof.
  induction ks as [|k r IH]; simpl; intros acc H; [now rewrite app_nil_r|].
  rewrite set_ins_last by (eapply ssorted_app_lt; eauto).
  rewrite IH; rewrite <- app_assoc; simpl; [reflexivity|assumption].
Qed.

Lemma fold_ins_sorted_id : forall ks, ssorted ks -> fold_left (fun a k => set_ins k a) ks [] = ks.
Proof. intros ks H. now rewrite (fold_ins_sorted_app ks []). Qed.

Lemma fold_ins_sorted : forall ks acc, ssorted acc -> ssorted (fold_left (fun a k => set_ins k a) ks acc).
Proof. induction ks as [|k r IH]; simpl; intros acc H; [assumption|]. apply IH. now apply set_ins_sorted. Qed.

Lemma fold_ins_Forall : forall (P : str -> Prop) ks acc, Forall P ks -> Forall P acc ->
  Forall P (fold_left (fun a k => set_ins k a) ks acc).
Proof.
  intros P. induction ks as [|k r IH]; simpl; intros acc Hk Ha; [assumption|].
  inversion Hk; subst. apply IH; [assumption|]. now apply set_ins_Forall.
Qed.

Lemma filter_sorted : forall f l, ssorted l -> ssorted (filter f l).
Proof.
  intros f. induction l as [|x r IH]; simpl; intros H; [exact I|].
  destruct H as [Hx Hr]. destruct (f x); simpl; [|now apply IH].
  split; [|now apply IH]. apply Forall_forall. intros y Hy. apply filter_In in Hy as [Hy _].
  rewrite Forall_forall in Hx. now apply Hx.
Qed.

Lemma filter_Forall : forall (A : Type) (P : A -> Prop) f l, Forall P l -> Forall P (filter f l).
Proof.
  intros A P f l H. apply Forall_forall. intros x Hx. apply filter_In in Hx as [Hx _].
  rewrite Forall_forall in H. now apply H.
Qed.

Lemma filter_all_true : forall (A : Type) (f : A -> bool) l, (forall x, In x l -> f x = true) -> filter f l = l.
Proof.
  intros A f. induction l as [|x r IH]; simpl; intros H; [reflexivity|].
  rewrite (H x) by now left. f_equal. apply IH. intros y Hy. apply H. now right.
Qed.

(* ------------------------------------------------------------ sorted maps *)
Section MapFacts.
  Context {V : Type}.
  Implicit Types m : list (str * V).

  Definition msorted m : Prop := ssorted (map fst m).

  Lemma m_set_keys : forall k v m x, In x (map fst (m_set k v m)) <-> x = k \/ In x (map fst m).
  Proof.
    intros k v m x. induction m as [|[y w] r IH]; simpl.
    - intuition (subst; auto).
    - destruct (seqb k y) eqn:E.
      + apply seqb_eq in E. subst. simpl. intuition (subst; auto).
      + destruct (sltb k y); simpl; [intuition (subst; auto)|]. rewrite IH. intuition (subst; auto).
  Qed.

  Lemma m_set_sorted : forall k v m, msorted m -> msorted (m_set k v m).
  Proof.
    intros k v m. unfold msorted. induction m as [|[y w] r IH]; simpl; intros H.
    - split; [constructor|exact I].
    - destruct H as [Hy Hr]. destruct (seqb k y) eqn:E.
      + apply seqb_eq in E. subst. simpl. auto.
      + destruct (sltb k y) eqn:L; simpl.
        * split; [|split; assumption]. constructor; [assumption|].
          eapply Forall_impl; [|exact Hy]. intros z Hz. simpl in Hz. eapply sltb_trans; eauto.
        * split; [|now apply IH]. apply Forall_forall. intros z Hz. apply m_set_keys in Hz as [->|Hz].
          -- apply sltb_total; assumption.
          -- rewrite Forall_forall in Hy. now apply Hy.
  Qed.

  Lemma m_set_Forall : forall (P : str * V -> Prop) k v m, P (k, v) -> Forall P m -> Forall P (m_set k v m).
  Proof.
    intros P k v m Hk. induction m as [|[y w] r IH]; simpl; intros H.
    - now constructor.
    - inversion H; subst. destruct (seqb k y); [now constructor|].
      destruct (sltb k y); constructor; auto.
  Qed.

  Lemma m_set_head : forall k v m, Forall (fun y => sltb k y = true) (map fst m) -> m_set k v m = (k, v) :: m.
  Proof.
    intros k v [|[y w] r]; simpl; intros H; [reflexivity|].
    inversion H as [|? ? Hy Hr]; subst. now rewrite (sltb_neq _ _ Hy), Hy.
  Qed.

  Lemma m_del_sorted : forall k m, msorted m -> msorted (m_del k m).
  Proof.
    intros k m. unfold msorted, m_del. induction m as [|[y w] r IH]; simpl; intros H; [exact I|].
    destruct H as [Hy Hr]. destruct (negb (seqb k y)); simpl; [|now apply IH].
    split; [|now apply IH]. apply Forall_forall. intros z Hz. apply in_map_iff in Hz as [[z' w'] [<- Hz]].
    apply filter_In in Hz as [Hz _]. rewrite Forall_forall in Hy. apply Hy. apply in_map_iff. now exists (z', w').
  Qed.

  Lemma m_del_Forall : forall (P : str * V -> Prop) k m, Forall P m -> Forall P (m_del k m).
  Proof. intros P k m H. unfold m_del. now apply filter_Forall. Qed.

  Lemma m_mem_false : forall k m, m_mem k m = false -> forall e, In e m -> seqb k (fst e) = false.
  Proof.
    intros k m. unfold m_mem. induction m as [|[y w] r IH]; simpl; intros H e He; [contradiction|].
    destruct (seqb k y) eqn:E; [discriminate|]. destruct He as [<-|He]; [assumption|]. now apply IH.
  Qed.

  Lemma m_mem_true_In : forall k m, m_mem k m = true -> In k (map fst m).
  Proof.
    intros k m. unfold m_mem. induction m as [|[y w] r IH]; simpl; intros H; [discriminate|].
    destruct (seqb k y) eqn:E; [apply seqb_eq in E; now left|]. right. now apply IH.
  Qed.

  Lemma m_del_absent : forall k m, m_mem k m = false -> m_del k m = m.
  Proof.
    intros k m H. unfold m_del. apply filter_all_true. intros e He.
    now rewrite (m_mem_false _ _ H e He).
  Qed.

  Lemma m_del_mem_other : forall k k' m, m_mem k' m = false -> m_mem k' (m_del k m) = false.
  Proof.
    intros k k' m. unfold m_mem, m_del. induction m as [|[y w] r IH]; simpl; intros H; [reflexivity|].
    destruct (seqb k' y) eqn:E; [discriminate|]. destruct (negb (seqb k y)); simpl; [rewrite E|]; now apply IH.
  Qed.

  Lemma fold_del_absent : forall ks m, existsb (fun k => m_mem k m) ks = false ->
    fold_left (fun a k => m_del k a) ks m = m.
  Proof.
    induction ks as [|k r IH]; simpl; intros m H; [reflexivity|].
    apply orb_false_iff in H as [H1 H2]. rewrite m_del_absent by assumption. now apply IH.
  Qed.

  Lemma fold_del_sorted : forall ks m, msorted m -> msorted (fold_left (fun a k => m_del k a) ks m).
  Proof. induction ks as [|k r IH]; simpl; intros m H; [assumption|]. apply IH. now apply m_del_sorted. Qed.

  Lemma fold_del_Forall : forall (P : str * V -> Prop) ks m, Forall P m -> Forall P (fold_left (fun a k => m_del k a) ks m).
  Proof. intros P. induction ks as [|k r IH]; simpl; intros m H; [assumption|]. apply IH. now apply m_del_Forall. Qed.

  Lemma fold_set_sorted : forall (kvs : list (str * V)) m, msorted m ->
    msorted (fold_left (fun a kv => m_set (fst kv) (snd kv) a) kvs m).
  Proof. induction kvs as [|kv r IH]; simpl; intros m H; [assumption|]. apply IH. now apply m_set_sorted. Qed.

  Lemma fold_set_Forall : forall (P : str * V -> Prop) (kvs : list (str * V)) m, Forall P kvs -> Forall P m ->
    Forall P (fold_left (fun a kv => m_set (fst kv) (snd kv) a) kvs m).
  Proof.
    intros P. induction kvs as [|[k v] r IH]; simpl; intros m Hk H; [assumption|].
    inversion Hk; subst. apply IH; [assumption|]. now apply m_set_Forall.
  Qed.

  Lemma m_get_set_same : forall k v m, m_get k (m_set k v m) = Some v.
  Proof.
    intros k v m. induction m as [|[y w] r IH]; simpl.
    - now rewrite seqb_refl.
    - destruct (seqb k y) eqn:E; simpl; [now rewrite seqb_refl|].
      destruct (sltb k y); simpl; [now rewrite seqb_refl|]. now rewrite E.
  Qed.
End MapFacts.
